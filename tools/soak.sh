#!/bin/bash
# usage: tools/soak.sh <first_seed> <last_seed> [tier]  - every check under several VERIF_SEEDs, no evidence written
T=${3:-quick}
for seed in $(seq $1 $2); do
  for p in C01 C02 C03 C04 C05 C06 C07 C08 C09 C10 C11 C12 C16 C18 C19 C20; do
    VERIF_SEED=$seed timeout 3600 /venv/bin/python -m simlab.check $p --tier $T --no-evidence > soak_${seed}_$p.log 2>&1
    rc=$?
    echo "seed=$seed $p exit=$rc violations=$(grep -c '^VIOLATION' soak_${seed}_$p.log) harness=$(grep -c 'HARNESS' soak_${seed}_$p.log) $(tail -1 soak_${seed}_$p.log | cut -c1-160)"
    if [ $rc -ne 0 ]; then grep -E "^violation:|HARNESS" soak_${seed}_$p.log | head -5; fi
  done
done
