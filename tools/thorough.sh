#!/bin/bash
# every check's thorough tier once (no evidence written: this is a background sweep from a snapshot)
for p in ${@:-C01 C02 C03 C04 C05 C06 C07 C08 C09 C10 C11 C12 C16 C18 C19 C20}; do
  timeout 7200 /venv/bin/python -m simlab.check $p --tier thorough --no-evidence > thorough_$p.log 2>&1
  rc=$?
  echo "$p exit=$rc violations=$(grep -c '^VIOLATION' thorough_$p.log) harness=$(grep -c 'HARNESS' thorough_$p.log) $(tail -1 thorough_$p.log | cut -c1-170)"
  if [ $rc -ne 0 ]; then grep -E "^violation:|HARNESS" thorough_$p.log | head -5; fi
done
