#!/bin/bash
# usage: tools/validate_mutant.sh <dir with patch.diff + demo.py>   (uses the scratch worktree /tmp/wt/val)
# confirms: patch applies to the clean tree, existing tests pass with it, demo passes clean and fails changed.
set -u
D=$(readlink -f "$1")
WT=/tmp/wt/val
# the scratch worktree is created on demand; remove it when done: git -C /repo worktree remove --force /tmp/wt/val
[ -d $WT ] || git -C /repo worktree add --detach -q $WT HEAD
RUN=/tmp/wt-run/val; mkdir -p $RUN
git -C $WT checkout -q -- . ; git -C $WT clean -fdq
cd $RUN && PYTHONPATH=$WT timeout 300 /venv/bin/python $D/demo.py > $D/val_clean.txt 2>&1; RC_CLEAN=$?
git -C $WT apply --check $D/patch.diff || { echo "RESULT $D patch-does-not-apply"; exit 1; }
git -C $WT apply $D/patch.diff
cd $WT && PYTHONPATH=$WT timeout 900 /venv/bin/python -m pytest -q -p no:cacheprovider -x tests/ > $D/val_tests.txt 2>&1; RC_TESTS=$?
cd $RUN && PYTHONPATH=$WT timeout 300 /venv/bin/python $D/demo.py > $D/val_changed.txt 2>&1; RC_CH=$?
git -C $WT checkout -q -- . ; git -C $WT clean -fdq
FILES=$(grep -c '^diff --git' $D/patch.diff)
echo "RESULT $D files=$FILES demo_clean_rc=$RC_CLEAN tests_rc=$RC_TESTS ($(tail -1 $D/val_tests.txt | cut -c1-40)) demo_changed_rc=$RC_CH"
