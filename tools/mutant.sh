#!/bin/bash
# usage: tools/mutant.sh <patch.diff> <Cxx> [extra check args...]
# applies the patch to a scratch copy of /repo's jesse package (outside /repo and /verif), runs the check
# against it with --repo, removes the copy.  Exit code = the check's exit code.
set -u
PATCH=$(readlink -f "$1"); shift
PROP=$1; shift
D=$(mktemp -d /tmp/jm.XXXXXX)
rsync -a --exclude static --exclude __pycache__ /repo/jesse "$D/" && mkdir -p "$D/jesse/static"
( cd "$D" && patch -p1 -s < "$PATCH" ) || { echo "patch failed"; rm -rf "$D"; exit 9; }
cd /verif && timeout 1800 /venv/bin/python -m simlab.check "$PROP" --repo "$D" --no-evidence "$@"
RC=$?
rm -rf "$D"
exit $RC
