"""Seeded candle histories (DESIGN 3.5): lattice walk with regimes, gaps, flats, ties.

Candle layout is jesse's: [timestamp, open, close, high, low, volume], float64.
Every minute's innovation has its own key (symbol, minute, tail_id) so replacing a tail never
disturbs the head.
"""
import numpy as np

from .prng import H, Stream

REGIMES = ('up', 'down', 'chop', 'flat', 'spike', 'gap', 'chop', 'up', 'down')


def price_of(k: int, tick: float) -> float:
    return round(k * tick, 10)


def gen_series(seed, symbol, n, start_ts, p, tails=()):
    """p: dict(tick, k0, vol, block, pgap, kmin); tails: list of (cut_minute, tail_id, shift_ticks)
    sorted by cut.  Returns (n,6) float64 array and the integer tick matrix (n,4: o,c,h,l)."""
    tick = p['tick']
    vol = max(1, int(p['vol']))
    block = max(1, int(p['block']))
    kmin = max(2, int(p.get('kmin', 2)))
    kmax = int(p.get('kmax', 10 ** 9))
    k = int(p['k0'])
    out = np.empty((n, 6), dtype=np.float64)
    ks = np.empty((n, 4), dtype=np.int64)
    tail_id = 0
    ti = 0
    tails = sorted(tails)
    for m in range(n):
        shift = 0
        while ti < len(tails) and tails[ti][0] == m:
            tail_id = tails[ti][1]
            shift = tails[ti][2]
            ti += 1
        regime = REGIMES[H(seed, 'regime', symbol, m // block, tail_id) % len(REGIMES)]
        bits = H(seed, 'candle', symbol, m, tail_id)
        b_gap = bits & 0xff
        b_gsz = (bits >> 8) & 0xff
        b_body = (bits >> 16) & 0xfff
        b_wu = (bits >> 28) & 0xff
        b_wd = (bits >> 36) & 0xff
        b_vol = (bits >> 44) & 0xff
        b_misc = (bits >> 52) & 0xff

        o = k + shift
        pg = 128 if regime == 'gap' else int(p.get('pgap', 8))
        if b_gap < pg:
            g = 1 + b_gsz % (3 * vol)
            o = o + g if (b_gsz & 0x80) else o - g
        if regime == 'flat':
            body = 0
        elif regime == 'up':
            body = (b_body % (2 * vol + 1)) - (vol // 2)
        elif regime == 'down':
            body = -((b_body % (2 * vol + 1)) - (vol // 2))
        elif regime == 'spike' and (b_misc & 7) == 0:
            body = (b_body % (20 * vol + 1)) - 10 * vol
        else:
            body = (b_body % (2 * vol + 1)) - vol
        o = min(max(o, kmin), kmax)
        c = min(max(o + body, kmin), kmax)
        if regime == 'flat':
            h = max(o, c)
            lo = min(o, c)
            v = 0.0 if (b_vol & 1) else float(b_vol)
        else:
            wu = 0 if (b_wu & 1) else (b_wu >> 1) % (vol + 1)
            wd = 0 if (b_wd & 1) else (b_wd >> 1) % (vol + 1)
            h = max(o, c) + wu
            lo = max(min(o, c) - wd, 1)
            v = 0.0 if b_vol < 8 else float(b_vol) * (1 + (b_misc & 3))
        ks[m] = (o, c, h, lo)
        out[m, 0] = start_ts + m * 60_000
        out[m, 1] = price_of(o, tick)
        out[m, 2] = price_of(c, tick)
        out[m, 3] = price_of(h, tick)
        out[m, 4] = price_of(lo, tick)
        out[m, 5] = v
        k = c
    return out, ks


def gen_params(st: Stream, small_lattice=False):
    tick = st.choice([0.0001, 0.01, 0.01, 0.5, 1.0, 0.0137, 10.0], 'tick')
    if small_lattice:
        k0 = st.randint(6, 14, 'k0')
        vol = 1
        return {'tick': tick, 'k0': k0, 'vol': vol, 'block': st.randint(5, 40, 'block'),
                'pgap': st.choice([4, 16, 40], 'pgap'), 'kmin': max(2, k0 - 4), 'kmax': k0 + 4}
    k0 = st.choice([60, 200, 1000, 5000, 20000], 'k0')
    vol = st.choice([1, 1, 2, 3, 5, 12], 'vol')
    vol = min(vol, max(1, k0 // 40))
    return {'tick': tick, 'k0': k0, 'vol': vol, 'block': st.randint(10, 150, 'block'),
            'pgap': st.choice([0, 4, 8, 24], 'pgap'), 'kmin': max(2, k0 // 5)}


def normalised(arr: np.ndarray) -> np.ndarray:
    """the documented normalisation (reference, harness side): open := previous close, and
    the matching high/low bound is widened to include it."""
    out = arr.copy()
    for i in range(1, len(out)):
        pc = arr[i - 1, 2]
        if pc < out[i, 1]:
            out[i, 1] = pc
            out[i, 4] = min(pc, out[i, 4])
        elif pc > out[i, 1]:
            out[i, 1] = pc
            out[i, 3] = max(pc, out[i, 3])
    return out


def aggregate(rows: np.ndarray) -> np.ndarray:
    """reference OHLCV aggregation of a block of 1m candles (plain python, no jesse code)"""
    o = float(rows[0][1])
    c = float(rows[-1][2])
    h = max(float(r[3]) for r in rows)
    lo = min(float(r[4]) for r in rows)
    v = 0.0
    for r in rows:
        v += float(r[5])
    return np.array([float(rows[0][0]), o, c, h, lo, v])
