"""Process bootstrap: pin the environment (re-exec once), put the repo under test on sys.path,
import jesse, move into a scratch working directory.  Nothing here draws randomness."""
import os
import sys
import shutil
import atexit

VERIF_DIR = os.path.dirname(os.path.dirname(os.path.abspath(__file__)))
WORK_DIR = os.path.join(VERIF_DIR, '.work')

PINNED = {
    'TZ': 'UTC',
    'NUMBA_CACHE_DIR': os.path.join(WORK_DIR, 'numba'),
    'PYTHONDONTWRITEBYTECODE': '1',
    'OMP_NUM_THREADS': '1',
    'OPENBLAS_NUM_THREADS': '1',
    'MKL_NUM_THREADS': '1',
    'NUMBA_NUM_THREADS': '1',
    'PYTHONWARNINGS': 'ignore',
}
UNSET = ('PYTEST_CURRENT_TEST', 'PYCHARM_HOSTED')


def pin_env_and_reexec(module: str) -> None:
    """Re-exec the interpreter once with the pinned environment (hash seed, TZ, ...).
    `module` is the -m module name to re-run (argv is preserved)."""
    if os.environ.get('SIMLAB_BOOTED') == '1':
        return
    env = dict(os.environ)
    env.update(PINNED)
    env['PYTHONHASHSEED'] = os.environ.get('VERIF_HASHSEED', '0')
    for k in UNSET:
        env.pop(k, None)
    env['SIMLAB_BOOTED'] = '1'
    env['PYTHONPATH'] = VERIF_DIR + (os.pathsep + env['PYTHONPATH'] if env.get('PYTHONPATH') else '')
    os.makedirs(PINNED['NUMBA_CACHE_DIR'], exist_ok=True)
    sys.stdout.flush()
    sys.stderr.flush()
    os.execve(sys.executable, [sys.executable, '-m', module] + sys.argv[1:], env)


_scratch = None


def enter_scratch_cwd() -> str:
    """chdir into a private scratch directory (jesse creates ./storage etc. relative to cwd)."""
    global _scratch
    if _scratch is None:
        _scratch = os.path.join(WORK_DIR, f'cwd-{os.getpid()}')
        os.makedirs(_scratch, exist_ok=True)
        os.chdir(_scratch)
        owner = os.getpid()

        def _cleanup():
            if os.getpid() == owner:
                try:
                    os.chdir(VERIF_DIR)
                except OSError:
                    pass
                shutil.rmtree(_scratch, ignore_errors=True)
        atexit.register(_cleanup)
    return _scratch


def import_jesse(repo: str = '/repo'):
    """Import jesse from `repo` (working tree). Returns the jesse package."""
    repo = os.path.abspath(repo)
    if repo not in sys.path[:1]:
        sys.path.insert(0, repo)
    import warnings
    warnings.filterwarnings('ignore')
    import jesse  # noqa
    got = os.path.dirname(os.path.dirname(os.path.abspath(jesse.__file__)))
    if os.path.realpath(got) != os.path.realpath(repo):
        raise RuntimeError(f'jesse imported from {got}, expected {repo}')
    import jesse.research  # noqa
    import jesse.modes.backtest_mode  # noqa
    import jesse.strategies  # noqa
    # warm the numba kernels a session needs by calling them as pure functions, so that forked
    # children inherit the compiled code instead of each loading it from the on-disk cache
    try:
        import numpy as np
        from jesse.models.FuturesExchange import find_order_index
        find_order_index(np.zeros((2, 2)), np.zeros(2))
    except Exception:
        pass
    return jesse
