"""Command line of every check:  python -m simlab.check <Cxx> --tier quick|thorough [--replay file]

Exit codes: 0 held on everything explored (KNOWN-FINDING lines allowed); 1 at least one unlisted
violation (a `VIOLATION property=<id> replay=<path>` line each); 2 harness error."""
import argparse
import importlib
import json
import os
import sys
import time

from . import boot

VERIF = boot.VERIF_DIR


def load_known():
    p = os.path.join(VERIF, 'known_findings.json')
    if not os.path.exists(p):
        return []
    with open(p) as f:
        return json.load(f).get('findings', [])


def known_for(prop, known):
    return {k['fingerprint']: k for k in known if k.get('property') == prop and k.get('status') == 'open'}


def main(argv=None):
    ap = argparse.ArgumentParser(prog='simlab.check')
    ap.add_argument('prop')
    ap.add_argument('--tier', default=os.environ.get('VERIF_TIER', 'quick'), choices=['quick', 'thorough'])
    ap.add_argument('--runs', type=int, default=None)
    ap.add_argument('--jobs', type=int, default=None)
    ap.add_argument('--repo', default=os.environ.get('SIMLAB_REPO', '/repo'))
    ap.add_argument('--replay', default=None)
    ap.add_argument('--no-minimise', action='store_true')
    ap.add_argument('--no-evidence', action='store_true')
    ap.add_argument('--max-report', type=int, default=6)
    ap.add_argument('--digests', default=None, help='write per-run digests to this file (determinism self-test)')
    ap.add_argument('--quiet', action='store_true')
    ap.add_argument('--catch-file', default=None, help='write the work items whose run produced a violation (corpus building)')
    ap.add_argument('--no-corpus', action='store_true')
    args = ap.parse_args(argv)

    boot.pin_env_and_reexec('simlab.check')
    t_start = time.time()
    verif_seed = int(os.environ.get('VERIF_SEED', '0'))
    print(f'simlab check={args.prop} tier={args.tier} VERIF_SEED={verif_seed} repo={args.repo} '
          f'PYTHONHASHSEED={os.environ.get("PYTHONHASHSEED")}', flush=True)

    os.makedirs(boot.WORK_DIR, exist_ok=True)
    boot.enter_scratch_cwd()
    try:
        boot.import_jesse(args.repo)
        from . import seams, farm
        seams.install()
        mod = importlib.import_module(f'checks.{args.prop}')
        check = mod.CHECK
    except Exception:
        import traceback
        traceback.print_exc()
        print('HARNESS-ERROR: setup failed', flush=True)
        return 2

    farm.register('run', check.run_one)
    farm.register('replay', check.replay)

    def replay_in_child(payload):
        return farm.run_in_child(check.replay, payload)

    # ------------------------------------------------------------------ replay mode
    if args.replay:
        with open(args.replay) as f:
            payload = json.load(f)
        try:
            res = replay_in_child(payload)
        except farm.HarnessError as e:
            print('HARNESS-ERROR:', e)
            return 2
        vs = res.get('violations', [])
        want = payload.get('violation', {}).get('fingerprint')
        for v in vs:
            print(f"replayed violation: property={v['property']} clause={v['clause']} fingerprint={v['fingerprint']} seq={v.get('seq')}")
            if not args.quiet:
                print('  detail:', json.dumps(v.get('detail'), default=str)[:1500])
        if want is not None:
            print('expected fingerprint reproduced:', any(v['fingerprint'] == want for v in vs))
        if vs:
            print(f'VIOLATION property={args.prop} replay={args.replay}')
            return 1
        print('no violation on replay')
        return 0

    # ------------------------------------------------------------------ exploration
    work = check.args_for(args.tier, verif_seed, args.runs)
    # regression corpus: work items (seeds) that once exposed a seeded change; they run in every invocation,
    # whatever VERIF_SEED is, so that reaching those corners does not depend on luck
    corpus_path = os.path.join(VERIF, 'corpus.json')
    n_corpus = 0
    if os.path.exists(corpus_path) and not args.no_corpus:
        try:
            have = {(w.get('seed'), w.get('mode')) for w in work}
            for i, item in enumerate(json.load(open(corpus_path)).get(check.prop, [])):
                if (item.get('seed'), item.get('mode')) in have:
                    continue
                it = {k: v for k, v in item.items() if k in ('seed', 'mode')}
                it['k'] = 90_000_000 + i
                work.append(it)
                n_corpus += 1
        except Exception as e:
            print('HARNESS-ERROR: corpus.json unreadable:', e)
            return 2
    nsample = 3
    for a in work[:check.n_directed() + nsample]:
        a['want_sample'] = True
    last = [0.0]

    def progress(done, total):
        now = time.time()
        if now - last[0] > 20:
            last[0] = now
            print(f'  .. {done}/{total} batches, {now - t_start:.0f}s', flush=True)

    results = farm.map_runs('run', work, jobs=args.jobs, progress=None if args.quiet else progress)
    harness_errors = [r[1] for r in results if r[0] != 'ok']
    oks = [r[1] for r in results if r[0] == 'ok']

    # determinism self-check: re-execute 2 runs and compare digests
    recheck = [w for w in work if 'seed' in w][:2]
    det_ok = True
    if recheck and not harness_errors:
        again = farm.map_runs('run', recheck, jobs=min(2, args.jobs or 2))
        by_k = {r['k']: r for r in oks}
        for w, r in zip(recheck, again):
            if r[0] != 'ok' or r[1].get('digest') != by_k[w['k']].get('digest'):
                det_ok = False
    if args.catch_file:
        by_k = {w['k']: w for w in work}
        caught = []
        for r in sorted(oks, key=lambda r: r['k']):
            if r.get('violations'):
                w = by_k.get(r['k'], {})
                caught.append({'seed': w.get('seed'), 'mode': w.get('mode'), 'k': r['k'],
                               'fingerprints': sorted({v['fingerprint'] for v in r['violations']})})
        with open(args.catch_file, 'w') as f:
            json.dump(caught, f)
    if args.digests:
        with open(args.digests, 'w') as f:
            for r in sorted(oks, key=lambda r: r['k']):
                f.write(f"{r['k']} {r.get('digest')} {len(r.get('violations', []))}\n")

    # ------------------------------------------------------------------ aggregate
    counters = {}
    sigs = set()
    minutes = 0
    events = 0
    statuses = {}
    samples = []
    all_viol = []   # (k, violation, result)
    for r in sorted(oks, key=lambda r: r['k']):
        for k, v in r.get('counters', {}).items():
            counters[k] = counters.get(k, 0) + v
        minutes += r.get('minutes', 0)
        events += r.get('events', 0)
        statuses[r.get('status', '?')] = statuses.get(r.get('status', '?'), 0) + 1
        if r.get('nontrivial'):
            sigs.add(r.get('sig'))
        if 'sample' in r and len(samples) < 4:
            samples.append({'k': r['k'], 'seed': r.get('seed'), **r['sample']})
        for v in r.get('violations', []):
            all_viol.append((r['k'], v, r))

    known = known_for(check.prop, load_known())
    by_fp = {}
    for k, v, r in all_viol:
        by_fp.setdefault(v['fingerprint'], []).append((k, v, r))

    exit_code = 0
    known_hit = {}
    reported = []
    os.makedirs(os.path.join(VERIF, 'replays'), exist_ok=True)
    for fp in sorted(by_fp):
        items = by_fp[fp]
        if fp in known:
            known_hit[fp] = len(items)
            continue
        if len(reported) >= args.max_report:
            reported.append({'fingerprint': fp, 'count': len(items), 'replay': None, 'note': 'not minimised (report cap)'})
            exit_code = 1
            continue
        k, v, r = items[0]
        payload = r.get('replay')
        path = None
        if payload is not None:
            payload = dict(payload)
            payload['property'] = check.prop
            payload['violation'] = v
            payload['run'] = {'k': k, 'seed': r.get('seed'), 'verif_seed': verif_seed, 'tier': args.tier}
            # verify the replay reproduces the fingerprint in a fresh child
            try:
                rr = replay_in_child(payload)
                reproduced = any(x['fingerprint'] == fp for x in rr.get('violations', []))
            except farm.HarnessError as e:
                reproduced = False
                harness_errors.append(f'replay failed: {e}')
            if not reproduced:
                harness_errors.append(f'violation {fp} (run k={k}) did not reproduce on replay')
            tag = f'{check.prop}-{verif_seed}-{k}-{len(reported)}'
            orig_path = os.path.join(VERIF, 'replays', f'{tag}.orig.json')
            with open(orig_path, 'w') as f:
                json.dump(payload, f)
            final = payload
            if reproduced and not args.no_minimise:
                try:
                    final = check.minimise(payload, replay_in_child, v, 25.0)
                    final['violation'] = v
                except Exception as e:
                    final = payload
                    final['minimise_error'] = repr(e)
            path = os.path.join(VERIF, 'replays', f'{tag}.json')
            with open(path, 'w') as f:
                json.dump(final, f)
        reported.append({'fingerprint': fp, 'count': len(items), 'replay': path, 'k': k, 'clause': v['clause']})
        exit_code = 1

    wall = time.time() - t_start
    # ------------------------------------------------------------------ output
    for fp, n in sorted(known_hit.items()):
        print(f"KNOWN-FINDING: property={check.prop} {known[fp].get('title', '')} [{fp}] hit in {n} run(s)")
    for rep in reported:
        print(f"violation: fingerprint={rep['fingerprint']} runs={rep['count']} clause={rep.get('clause')}")
        print(f"VIOLATION property={check.prop} replay={rep['replay']}")
    if harness_errors:
        for h in harness_errors[:10]:
            print('HARNESS-ERROR:', str(h)[:2000])
    if not det_ok:
        print('HARNESS-ERROR: determinism self-check failed (same seed, different digest)')

    n_eval = len(oks)
    runs_per_hour = n_eval / wall * 3600 if wall > 0 else 0
    print(f'{check.prop}: runs={n_eval} nontrivial-distinct={len(sigs)} violations={len(all_viol)} '
          f'unlisted-fingerprints={len(reported)} known-hit={sum(known_hit.values())} wall={wall:.1f}s '
          f'statuses={statuses}', flush=True)

    if not args.no_evidence and not args.runs:
        ev = {
            'property_id': check.prop,
            'tier': args.tier,
            'seed': verif_seed,
            'level': 'exploration',
            'coverage': {
                'evaluations': n_eval,
                'distinct_nontrivial': len(sigs),
                'rule': check.rule,
                'samples': samples or [{'note': 'no sample captured'}],
                'runs_per_hour': round(runs_per_hour),
                'seeds_per_hour': round(runs_per_hour),
                'simulated_minutes': minutes,
                'trace_events': events,
                'run_statuses': statuses,
                'faults_fired': {k: counters.get(k, 0) for k in check.fault_kinds},
                'reach_probes': {k: counters.get(k, 0) for k in check.probes},
                'counters': counters,
                'components_real': check.real_components,
                'components_stub': check.stub_components,
                'determinism_selfcheck': 'ok' if det_ok else 'FAILED',
                'known_findings_hit': known_hit,
                'unlisted_violation_fingerprints': [r['fingerprint'] for r in reported],
                'harness_errors': len(harness_errors),
                'jobs': args.jobs or os.cpu_count(),
                'corpus_runs_included': n_corpus,
            },
            'assumptions': check.assumptions,
            'wall_s': round(wall, 2),
            'violations': len([1 for k, v, r in all_viol if v['fingerprint'] not in known]),
        }
        os.makedirs(os.path.join(VERIF, 'evidence'), exist_ok=True)
        with open(os.path.join(VERIF, 'evidence', f'{check.prop}.json'), 'w') as f:
            json.dump(ev, f, indent=1, default=str)

    if harness_errors or not det_ok:
        return 2 if exit_code == 0 else exit_code
    return exit_code
