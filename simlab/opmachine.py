"""Operation runs (DESIGN 1): the store, exchange, positions, orders, broker, trade log and the
strategy event plumbing are real and wired as a session wires them, but the matching engine is
replaced by the seeded scheduler: it decides which order is submitted, which resting order fills
next and at which price, which is cancelled, when a duplicate execute/cancel is delivered."""
import math
import traceback

import numpy as np

from . import ctx as C
from . import programs as P
from .prng import Stream

LEGAL = ('InsufficientMargin', 'InsufficientBalance')


def gen_op_spec(seed, profile=None):
    pf = dict(profile or {})
    st = Stream(seed, 'opcfg')
    typ = pf.get('type') or st.choice(['futures', 'spot'], 'type')
    nsym = pf.get('n_symbols') or st.wchoice([(1, 0.6), (2, 0.4)], 'nsym')
    from .session import pick_symbols, pick_exchange_name
    syms = pick_symbols(st, pf)[:nsym]
    spec = {
        'kind': 'ops', 'seed': seed, 'type': typ,
        'exchange': pf.get('exchange') or pick_exchange_name(st, typ),
        'leverage': pf.get('leverage') or st.choice([1, 2, 3, 5, 10, 25, 50, 100, 125], 'lev'),
        'mode': st.choice(['cross', 'isolated'], 'mode'),
        'fee': st.choice([0.0, 0.0004, 0.001, 0.0025], 'fee'),
        'balance': st.choice([100, 1000, 10_000, 1_000_000], 'bal'),
        'routes': [{'symbol': s, 'timeframe': '1m', 'program': P.gen_program(st.sub('p', i), typ, {'inert': True, 'p_dup': 0.0})}
                   for i, s in enumerate(syms)],
        'data_routes': [], 'warmup': 0, 'fast': False, 'minutes': 0,
        'symbols': {s: {'tick': st.choice([0.01, 0.5, 1.0, 0.0137], 'tick', s), 'k0': st.choice([40, 300, 5000], 'k0', s)} for s in syms},
        'n_ops': st.randint(pf.get('min_ops', 5), pf.get('max_ops', 60), 'nops'),
        'qty_decimals': st.choice([0, 1, 2, 4, 8], 'qd'),
        'weights': pf.get('weights') or {},
        'p_dup': pf.get('p_dup', st.choice([0.0, 0.05, 0.15], 'pdup')),
        'start_ts': 1_609_459_200_000,
        'spot_plain_sells': pf.get('spot_plain_sells', True),
    }
    return spec


class OpMachine:
    def __init__(self, c, spec, ops=None):
        self.c = c
        self.spec = spec
        self.replay_ops = ops
        self.done_ops = []
        self.st = Stream(spec['seed'], 'op')
        self.ex = spec['exchange']
        self.syms = [r['symbol'] for r in spec['routes']]
        self.k = {s: spec['symbols'][s]['k0'] for s in self.syms}
        self.t = spec['start_ts']
        self.ended = None

    # ------------------------------------------------------------------ wiring
    def setup(self):
        from jesse.config import config as jesse_config, set_config
        from jesse.research.backtest import _format_config
        from jesse.routes import router
        from jesse.store import store
        from jesse.services.validators import validate_routes
        import jesse.modes.backtest_mode as bm
        sp = self.spec
        jesse_config['app']['trading_mode'] = 'backtest'
        set_config(_format_config({
            'starting_balance': sp['balance'], 'fee': sp['fee'], 'type': sp['type'],
            'futures_leverage': sp['leverage'], 'futures_leverage_mode': sp['mode'],
            'exchange': self.ex, 'warm_up_candles': 0}))
        routes = [{'exchange': self.ex, 'strategy': P.strategy_class_for_route(i), 'symbol': r['symbol'],
                   'timeframe': '1m'} for i, r in enumerate(sp['routes'])]
        router.initiate(routes, [])
        validate_routes(router)
        store.candles.init_storage(5000)
        store.app.starting_time = self.t
        store.app.time = self.t
        bm._prepare_routes(None)
        self.store = store
        self.strats = {r.symbol: r.strategy for r in router.routes}
        for s in self.syms:
            # the declarative layer must not own the order set here: the scheduler does
            self.strats[s]._detect_and_handle_entry_and_exit_modifications = lambda: None
            self.set_mark(s, self.k[s], first=True)

    def price(self, s, k):
        return round(k * self.spec['symbols'][s]['tick'], 10)

    def set_mark(self, s, k, first=False):
        k = max(2, int(k))
        self.k[s] = k
        p = self.price(s, k)
        self.t += 60_000
        self.store.app.time = self.t
        candle = np.array([float(self.t - 60_000), p, p, p, p, 1.0])
        self.store.candles.add_candle(candle, self.ex, s, '1m', with_execution=False, with_generation=False)
        self.store.positions.storage[f'{self.ex}-{s}'].current_price = p
        return p

    def pos(self, s):
        return self.store.positions.storage[f'{self.ex}-{s}']

    def exch(self):
        return self.store.exchanges.storage[self.ex]

    def resting(self, s=None):
        reg = self.c.scratch['registry']
        out = []
        for r in reg.recs.values():
            if r.order.status == 'ACTIVE' and (s is None or r.symbol == s):
                out.append(r)
        out.sort(key=lambda r: r.seq)
        return out

    def finals(self):
        reg = self.c.scratch['registry']
        out = [r for r in reg.recs.values() if r.order.status != 'ACTIVE']
        out.sort(key=lambda r: r.seq)
        return out

    # ------------------------------------------------------------------ op generation
    def round_qty(self, q):
        qd = self.spec['qty_decimals']
        f = 10 ** qd
        return math.floor(q * f) / f

    def gen_op(self, i):
        st = self.st.sub(i)
        s = st.choice(self.syms, 'sym')
        p = self.pos(s)
        fut = self.spec['type'] == 'futures'
        rest = self.resting(s)
        w = {'submit': 4.0, 'mark': 2.0, 'fill': 3.0 if rest else 0.0, 'cancel': 1.5 if rest else 0.0,
             'cancel_all': 0.3 if rest else 0.0, 'flush': 1.0, 'exit': 3.0 if p.is_open else 0.0,
             'boundary': 0.15, 'dup': self.spec['p_dup'] * 10 if self.finals() else 0.0,
             'roundtrip': 0.5, 'cancel_then_bigger': 1.0 if (not fut and p.is_open) else 0.0}
        w.update(self.spec.get('weights') or {})
        kind = st.wchoice([(k, v) for k, v in w.items() if v > 0], 'kind')
        cur_k = self.k[s]
        cur_p = self.price(s, cur_k)
        if kind == 'mark':
            dk = st.randint(-6, 6, 'dk')
            return {'op': 'mark', 'sym': s, 'k': max(2, cur_k + dk)}
        if kind == 'flush':
            return {'op': 'flush'}
        if kind == 'fill':
            return {'op': 'fill', 'sym': s, 'idx': st.randint(0, 50, 'idx')}
        if kind == 'cancel':
            return {'op': 'cancel', 'sym': s, 'idx': st.randint(0, 50, 'idx')}
        if kind == 'cancel_all':
            return {'op': 'cancel_all', 'sym': s}
        if kind == 'dup':
            return {'op': 'dup', 'what': st.choice(['execute', 'cancel'], 'what'), 'idx': st.randint(0, 50, 'idx')}
        if kind == 'exit':
            q = abs(float(p.qty))
            if not fut and st.chance(0.8, 'xfree'):
                # spot: most exits are sized within what is not yet promised to resting sells of the same kind
                # (the rest probe the rejection rule)
                dk_ = st.randint(-5, 5, 'xdk')
                typ_ = 'MARKET' if dk_ == 0 else ('LIMIT' if dk_ > 0 else 'STOP')
                promised = sum(abs(r.qty) for r in rest if r.side == 'sell' and r.type == ('LIMIT' if typ_ == 'MARKET' else typ_))
                q = max(0.0, q - promised)
                if q <= 0:
                    return {'op': 'mark', 'sym': s, 'k': cur_k}
            mode = st.wchoice([('partial', 0.5), ('full', 0.3), ('oversize', 0.2 if fut else 0.0)], 'xm')
            if mode == 'partial':
                qq = self.round_qty(q * (0.1 + 0.8 * st.u('xf')))
                if qq <= 0 or qq >= q:
                    qq = q
            elif mode == 'full':
                qq = q
            else:
                qq = self.round_qty(q * (1.2 + st.u('xo'))) or q
            dk = st.randint(-5, 5, 'xdk')
            return {'op': 'exit', 'sym': s, 'qty': qq, 'k': max(2, cur_k + dk)}
        if kind == 'boundary':
            return {'op': 'boundary', 'sym': s, 'side': st.choice(['buy', 'sell'] if fut else ['buy'], 'bs'),
                    'how': st.choice(['exact', 'above', 'far'], 'how'), 'typ': st.choice(['LIMIT', 'MARKET'], 'bt')}
        if kind == 'cancel_then_bigger':
            return {'op': 'cancel_then_bigger', 'sym': s, 'typ': st.choice(['STOP', 'LIMIT'], 'ct'),
                    'f1': st.u('f1'), 'f2': st.u('f2')}
        # submit / roundtrip
        side = st.choice(['buy', 'sell'], 'side') if fut else st.wchoice([('buy', 0.6), ('sell', 0.4 if p.is_open else 0.0)], 'side')
        typ = st.choice(['MARKET', 'LIMIT', 'STOP'], 'typ')
        dk = st.randint(1, 5, 'sdk')
        if typ == 'MARKET':
            k = cur_k
        elif (typ == 'LIMIT') == (side == 'buy'):
            k = max(2, cur_k - dk)
        else:
            k = cur_k + dk
        price = self.price(s, k)
        if fut:
            budget = float(self.exch().available_margin) * self.spec['leverage'] * st.choice([0.05, 0.2, 0.5, 0.9], 'frac')
            q = self.round_qty(budget / max(price, cur_p)) if budget > 0 else 0
        else:
            if side == 'buy':
                budget = float(self.exch().wallet_balance) * st.choice([0.05, 0.2, 0.5, 0.9], 'frac')
                q = self.round_qty(budget / max(price, cur_p)) if budget > 0 else 0
            else:
                free = abs(float(p.qty))
                if st.chance(0.8, 'sfree'):
                    promised = sum(abs(r.qty) for r in rest if r.side == 'sell' and r.type == ('LIMIT' if typ == 'MARKET' else typ))
                    free = max(0.0, free - promised)
                q = self.round_qty(free * st.choice([0.1, 0.3, 0.6, 1.0], 'frac'))
                if st.chance(0.3, 'raw'):
                    q = free * st.choice([0.25, 0.5, 1.0], 'rawf')
        if fut and p.is_open and ((p.qty > 0) != (side == 'buy')) and st.chance(self.spec.get('p_no_flip', 0.7), 'noflip'):
            # most opposite-side orders stay within the position (a flip is one more event kind, not the main course)
            q = min(q, self.round_qty(abs(float(p.qty)) * st.choice([0.3, 0.6, 1.0], 'nff')) or q)
        if q <= 0:
            return {'op': 'mark', 'sym': s, 'k': cur_k}
        if not fut and side == 'sell' and not self.spec.get('spot_plain_sells', True):
            # plain (non reduce-only) sells in spot are only explored where the check asks for them
            return {'op': 'exit', 'sym': s, 'qty': min(q, abs(float(p.qty))), 'k': k}
        return {'op': 'roundtrip' if kind == 'roundtrip' else 'submit', 'sym': s, 'side': side, 'typ': typ, 'qty': q, 'k': k}

    # ------------------------------------------------------------------ op execution
    def submit(self, s, side, typ, qty, k):
        b = self.strats[s].broker
        price = self.price(s, k)
        cur = self.price(s, self.k[s])
        if typ == 'MARKET':
            return b.buy_at_market(qty) if side == 'buy' else b.sell_at_market(qty)
        if typ == 'LIMIT':
            return b.buy_at(qty, price) if side == 'buy' else b.sell_at(qty, price)
        # STOP: must be on the far side of the current price
        if side == 'buy' and price < cur:
            price = cur
        if side == 'sell' and price > cur:
            price = cur
        return b.start_profit_at(side, qty, price)

    def apply(self, op):
        c = self.c
        kind = op['op']
        c.count('op_' + kind)
        if kind == 'mark':
            self.set_mark(op['sym'], op['k'])
        elif kind == 'flush':
            self.store.orders.execute_pending_market_orders()
        elif kind == 'fill':
            rest = [r for r in self.resting(op['sym'])]
            if not rest:
                return
            r = rest[op['idx'] % len(rest)]
            # the matching engine moves the price to the order before executing it
            self.pos(op['sym']).current_price = float(r.order.price)
            tick = self.spec['symbols'][op['sym']]['tick']
            self.k[op['sym']] = max(2, int(round(float(r.order.price) / tick)))
            self.t += 60_000
            self.store.app.time = self.t
            p = float(r.order.price)
            self.store.candles.add_candle(np.array([float(self.t - 60_000), p, p, p, p, 1.0]), self.ex, op['sym'], '1m',
                                          with_execution=False, with_generation=False)
            r.order.execute()
            # (a pending MARKET order stays in jesse's queue: the next flush delivers execute() once more - a duplicate)
        elif kind == 'cancel':
            rest = [r for r in self.resting(op['sym'])]
            if not rest:
                return
            r = rest[op['idx'] % len(rest)]
            r.order.cancel()
            # (a cancelled pending MARKET order stays queued: the flush will try to execute a cancelled order)
        elif kind == 'cancel_all':
            self.strats[op['sym']].broker.cancel_all_orders()
        elif kind == 'dup':
            fin = self.finals()
            if not fin:
                return
            r = fin[op['idx'] % len(fin)]
            c.count('fault_duplicate_' + op['what'])
            if op['what'] == 'execute':
                r.order.execute()
            else:
                r.order.cancel()
        elif kind == 'exit':
            s = op['sym']
            if self.pos(s).is_close:
                return
            price = self.price(s, op['k'])
            self.strats[s].broker.reduce_position_at(op['qty'], price, self.price(s, self.k[s]))
        elif kind == 'submit':
            self.submit(op['sym'], op['side'], op['typ'], op['qty'], op['k'])
        elif kind == 'roundtrip':
            acct = c.scratch.get('account')
            before = None
            if acct is not None and self.spec['type'] == 'futures':
                before = float(self.exch().available_margin)
            o = self.submit(op['sym'], op['side'], op['typ'], op['qty'], op['k'])
            if o is not None:
                o.cancel()
                if before is not None:
                    after = float(self.exch().available_margin)
                    c.count('c03_roundtrips')
                    # exact, except for one corner: when another resting plain order has the very same quantity and
                    # price, the cancellation may take that twin's row out of the margin table instead of its own -
                    # the table holds the same rows in another order and numpy's sum over it may differ in the last
                    # bits (floating-point addition is not associative); only that much is tolerated, and only then
                    reg = c.scratch.get('registry')
                    twins = [r for r in (reg.active(op['sym']) if reg is not None else [])
                             if r.order is not o and r.order.is_active and not r.reduce_only
                             and abs(r.qty) == abs(float(o.qty)) and r.price == float(o.price) and r.side == o.side]
                    if twins and after != before:
                        scale = abs(before) + sum(abs(r.qty) * r.price for r in reg.active(op['sym']) if r.order.is_active and not r.reduce_only)
                        if abs(after - before) <= 16 * 2.220446049250313e-16 * max(1.0, scale):
                            c.count('c03_roundtrip_row_order_rounding_only')
                            after = before
                    if after != before:
                        c.violate('C03', 'roundtrip', 'C03|submit-then-cancel-does-not-restore-available-margin',
                                  {'before': before, 'after': after, 'op': op})
        elif kind == 'boundary':
            self.boundary(op)
        elif kind == 'cancel_then_bigger':
            self.cancel_then_bigger(op)

    def boundary(self, op):
        s = op['sym']
        cur = self.price(s, self.k[s])
        typ = op['typ']
        price = cur if typ == 'MARKET' else (self.price(s, max(2, self.k[s] - 1)) if op['side'] == 'buy' else self.price(s, self.k[s] + 1))
        if self.spec['type'] == 'futures':
            L = self.spec['leverage']
            avail = float(self.exch().available_margin)
            if avail <= 0:
                return
            q = avail * L / price
            if op['how'] == 'exact':
                # search a quantity whose notional/L is bit-equal to the available margin
                found = None
                x = q
                for _ in range(40):
                    v = abs(x * price) / L
                    if v == avail:
                        found = x
                        break
                    x = math.nextafter(x, math.inf if v < avail else -math.inf)
                if found is None:
                    return
                q = found
                self.c.count('boundary_exact_generated')
            elif op['how'] == 'above':
                x = q
                for _ in range(60):
                    if abs(x * price) / L > avail:
                        break
                    x = math.nextafter(x, math.inf)
                q = x * (1 + 1e-7)
            else:
                q = q * 3
        else:
            quote = float(self.exch().wallet_balance)
            if quote <= 0:
                return
            q = quote / price
            if op['how'] == 'exact':
                found = None
                x = q
                for _ in range(40):
                    v = abs(x) * price
                    if v == quote:
                        found = x
                        break
                    x = math.nextafter(x, math.inf if v < quote else -math.inf)
                if found is None:
                    return
                q = found
                self.c.count('boundary_exact_generated')
            elif op['how'] == 'above':
                q = q * (1 + 1e-7)
            else:
                q = q * 3
        b = self.strats[s].broker
        if typ == 'MARKET':
            (b.buy_at_market if op['side'] == 'buy' else b.sell_at_market)(q)
        else:
            (b.buy_at if op['side'] == 'buy' else b.sell_at)(q, price)

    def cancel_then_bigger(self, op):
        """spot motif: rest a sell, cancel it, then ask for a bigger sell of the same kind"""
        s = op['sym']
        p = self.pos(s)
        if p.is_close:
            return
        base = abs(float(p.qty))
        q1 = base * (0.1 + 0.5 * op['f1'])
        b = self.strats[s].broker
        k = self.k[s]
        if op['typ'] == 'STOP':
            o = b.start_profit_at('sell', q1, self.price(s, max(2, k - 2)))
        else:
            o = b.sell_at(q1, self.price(s, k + 2))
        if o is None:
            return
        o.cancel()
        self.c.count('cancel_then_bigger')
        q2 = base * (0.55 + 0.6 * op['f2'])    # up to 1.15 x base: mostly legal, sometimes not
        if op['typ'] == 'STOP':
            b.start_profit_at('sell', q2, self.price(s, max(2, k - 3)))
        else:
            b.sell_at(q2, self.price(s, k + 3))

    # ------------------------------------------------------------------ main loop
    def run(self):
        c = self.c
        n = len(self.replay_ops) if self.replay_ops is not None else self.spec['n_ops']
        for i in range(n):
            op = self.replay_ops[i] if self.replay_ops is not None else self.gen_op(i)
            self.done_ops.append(op)
            c.ev('op', i, op['op'])
            try:
                self.apply(op)
            except C.Violation:
                self.ended = 'violation-abort'
                break
            except Exception as e:
                name = type(e).__name__
                frames = traceback.extract_tb(e.__traceback__)
                if frames and '/simlab/' in frames[-1].filename and name not in LEGAL:
                    raise
                if name in LEGAL:
                    self.ended = 'legal-rejection'
                    c.count('ended_by_rejection')
                else:
                    self.ended = 'exception'
                    c.scratch['op_exception'] = {'exc': f'{name}: {e}', 'type': name, 'tb': traceback.format_exc()[-2500:],
                                                 'op': op}
                break
            c.dispatch('op_end', op)
        return self.ended or 'ok'


def execute_ops(spec, monitors, ops=None):
    from . import runner as R
    dec = C.Decider(Stream(spec['seed'], 'dec'), table={} if ops is not None else None)
    c = C.RunCtx(spec, dec, monitors)
    C.set_current(c)
    c.in_session = True
    c.session_no = 1
    try:
        c.dispatch('session_begin', spec, {})
        m = OpMachine(c, spec, ops)
        m.setup()
        status = m.run()
        if status in ('ok', 'legal-rejection'):
            c.dispatch('finish')
    finally:
        c.in_session = False
        C.set_current(None)
    return c, m, status
