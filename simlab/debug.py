"""python -m simlab.debug <Cxx> <replay.json> [before] [after]: replay in-process and print the trace around the first violation."""
import os, sys, json, copy


def main():
    from simlab import boot
    boot.pin_env_and_reexec('simlab.debug')
    os.makedirs(boot.WORK_DIR, exist_ok=True)
    boot.enter_scratch_cwd()
    boot.import_jesse(os.environ.get('SIMLAB_REPO', '/repo'))
    from simlab import seams, ctx as C, runner as R
    seams.install()
    import importlib
    import numpy as np
    prop, path = sys.argv[1], sys.argv[2]
    before = int(sys.argv[3]) if len(sys.argv) > 3 else 40
    after = int(sys.argv[4]) if len(sys.argv) > 4 else 5
    payload = json.load(open(path))
    check = importlib.import_module('checks.' + prop).CHECK
    holder = {}
    orig = R.execute_session

    def spy(*a, **k):
        c, out = orig(*a, **k)
        holder['c'] = c
        holder['out'] = out
        return c, out
    R.execute_session = spy
    res = check.replay(payload)
    c = holder.get('c')
    print('status', holder['out']['status'], holder['out'].get('exc'))
    vs = [v for v in c.violations]
    for v in vs[:5]:
        print('VIOL', v['property'], v['fingerprint'], 'seq', v['seq'], json.dumps(v['detail'], default=str)[:600])
    if vs and c is not None:
        s = vs[0]['seq']
        lo = max(0, s - before)
        for i, e in enumerate(c.trace[lo:s + after], start=lo + 1):
            print(i, e)
    if holder['out'].get('tb'):
        print(holder['out']['tb'])


if __name__ == '__main__':
    main()
