"""simlab - deterministic simulation with fault injection for jesse (see /verif/DESIGN.md)."""
