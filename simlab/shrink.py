"""Bounded minimisation of a replay payload (DESIGN 6): truncate candles after the violation,
ddmin over decision-table entries.  A candidate is kept only if the same fingerprint reappears."""
import copy
import time


def _fails(test, payload, fingerprint):
    try:
        res = test(payload)
    except Exception:
        return False
    return any(v.get('fingerprint') == fingerprint for v in res.get('violations', []))


def truncate_candles(payload, minutes):
    p = copy.deepcopy(payload)
    sp = p['spec']
    w = sp.get('warmup', 0)
    minutes = max(2, min(minutes, sp['minutes']))
    for s in list(sp.get('candles', {})):
        sp['candles'][s] = sp['candles'][s][: w + minutes]
    sp['minutes'] = minutes
    return p


def ddmin_decisions(payload, test, fingerprint, deadline):
    keys = sorted(payload.get('decisions', {}).keys())
    n = 2
    cur = list(keys)
    while len(cur) >= 1 and time.monotonic() < deadline:
        size = max(1, len(cur) // n)
        chunks = [cur[i:i + size] for i in range(0, len(cur), size)]
        reduced = False
        for ch in chunks:
            if time.monotonic() >= deadline:
                break
            chs = set(ch)
            cand = [k for k in cur if k not in chs]
            p = dict(payload)
            p['decisions'] = {k: payload['decisions'][k] for k in cand}
            if _fails(test, p, fingerprint):
                cur = cand
                n = max(n - 1, 2)
                reduced = True
                break
        if not reduced:
            if size == 1:
                break
            n = min(len(cur), n * 2)
    out = dict(payload)
    out['decisions'] = {k: payload['decisions'][k] for k in cur}
    return out


def minimise_session(payload, test, fingerprint, violation_minute=None, budget_s=25.0):
    """payload kind 'session'. `test(payload)` replays in a fresh child and returns a result dict."""
    deadline = time.monotonic() + budget_s
    best = payload
    steps = []
    sp = payload['spec']
    # 1. truncate after the violation minute (+ one trading candle), then try halving
    if violation_minute is not None and time.monotonic() < deadline:
        for extra in (1, 16, 61):
            m = violation_minute + extra
            if m < sp['minutes']:
                cand = truncate_candles(best, m)
                if _fails(test, cand, fingerprint):
                    best = cand
                    steps.append(f'truncate->{m}')
                    break
    # 2. ddmin over decisions
    if best.get('decisions') and time.monotonic() < deadline:
        before = len(best['decisions'])
        best = ddmin_decisions(best, test, fingerprint, deadline)
        steps.append(f'decisions {before}->{len(best["decisions"])}')
    best = dict(best)
    best['minimised'] = steps
    return best


def ddmin_list(items, fails, deadline):
    """generic ddmin over a list; fails(list)->bool"""
    cur = list(items)
    n = 2
    while len(cur) >= 2 and time.monotonic() < deadline:
        size = max(1, len(cur) // n)
        chunks = [(i, i + size) for i in range(0, len(cur), size)]
        reduced = False
        for a, b in chunks:
            if time.monotonic() >= deadline:
                break
            cand = cur[:a] + cur[b:]
            if cand and fails(cand):
                cur = cand
                n = max(n - 1, 2)
                reduced = True
                break
        if not reduced:
            if size == 1:
                break
            n = min(len(cur), n * 2)
    return cur
