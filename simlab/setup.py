"""setup_cmd: verify that jesse imports from /repo offline, create the scratch area, warm numba's
on-disk cache (outside /repo), run a tiny determinism smoke (same seed twice -> same digest)."""
import os
import sys
import time

from . import boot


def main():
    boot.pin_env_and_reexec('simlab.setup')
    t0 = time.time()
    os.makedirs(boot.WORK_DIR, exist_ok=True)
    boot.enter_scratch_cwd()
    boot.import_jesse(os.environ.get('SIMLAB_REPO', '/repo'))
    from . import seams, farm, session as S, runner as R
    seams.install()

    def one(seed):
        spec = S.gen_spec(seed, {'minutes': (60, 200)})
        fc = S.build_candles(spec)
        c, out = R.execute_session(spec, fc, [])
        return (out['status'], R.C.digest_trace(c.trace))

    farm.register('smoke', one)
    seeds = list(range(100, 108))
    a = farm.map_runs('smoke', seeds, jobs=4)
    b = farm.map_runs('smoke', seeds, jobs=2)
    ok = all(x[0] == 'ok' for x in a + b) and [x[1] for x in a] == [x[1] for x in b]
    print(f'simlab setup: jesse imported, seams installed, smoke determinism {"ok" if ok else "FAILED"} '
          f'({time.time() - t0:.1f}s)')
    return 0 if ok else 2


if __name__ == '__main__':
    sys.exit(main())
