"""Seams (DESIGN 3.2): every one is a monkeypatch installed once per process, before forking.
With no active RunCtx they are transparent pass-throughs.

Nondeterminism seams: ids, wall clock, sleep.
Observation seams: Order lifecycle, matching entry points, liquidation check, split_candle,
daily balance sampling, candle feed (feed horizon).  Observation seams never draw randomness and
never read a real clock.
"""
import uuid

from . import ctx as C

_installed = False
ORIG = {}

STEP_BUDGET = 200_000   # candle_includes_price evaluations inside ONE matching call


class _FakeArrowModule:
    """stands in for the `arrow` module inside jesse.store.state_app"""

    def __init__(self, real):
        self._real = real

    def utcnow(self):
        c = C.cur()
        if c is None:
            return self._real.utcnow()
        return self._real.get(c.now_ms / 1000)

    def __getattr__(self, name):
        return getattr(self._real, name)


class _FakeTimeModule:
    def __init__(self, real):
        self._real = real

    def time(self):
        c = C.cur()
        if c is None:
            return self._real.time()
        return c.now_ms / 1000.0

    def sleep(self, s):
        c = C.cur()
        if c is None:
            return self._real.sleep(s)
        c.now_ms += int(s * 1000)
        c.count('sleep_calls')

    def __getattr__(self, name):
        return getattr(self._real, name)


def install():
    global _installed
    if _installed:
        return
    _installed = True

    import time as _time
    import arrow as _arrow
    import jesse.helpers as jh
    import jesse.modes.backtest_mode as bm
    import jesse.store.state_app as state_app
    import sys as _sys
    import jesse.strategies  # noqa
    strat_mod = _sys.modules['jesse.strategies.Strategy']
    from jesse.models import Order
    from jesse.store.state_candles import CandlesState

    # ---------------------------------------------------------------- ids
    ORIG['generate_unique_id'] = jh.generate_unique_id
    ORIG['generate_short_unique_id'] = jh.generate_short_unique_id

    def generate_unique_id():
        c = C.cur()
        if c is None:
            return ORIG['generate_unique_id']()
        c.id_counter += 1
        return str(uuid.UUID(int=c.id_counter))

    def generate_short_unique_id():
        return generate_unique_id()[:22]

    jh.generate_unique_id = generate_unique_id
    jh.generate_short_unique_id = generate_short_unique_id

    # ---------------------------------------------------------------- clocks
    state_app.arrow = _FakeArrowModule(_arrow)
    faketime = _FakeTimeModule(_time)
    bm.time = faketime

    def fake_sleep(s):
        faketime.sleep(s)
    strat_mod.sleep = fake_sleep

    # ---------------------------------------------------------------- Order lifecycle
    ORIG['Order.__init__'] = Order.__init__
    ORIG['Order.execute'] = Order.execute
    ORIG['Order.cancel'] = Order.cancel

    def order_init(self, attributes=None, should_silent=False, **kwargs):
        c = C.cur()
        if c is None or not c.in_session:
            return ORIG['Order.__init__'](self, attributes, should_silent, **kwargs)
        c.dispatch('order_init_before', attributes)
        try:
            ORIG['Order.__init__'](self, attributes, should_silent, **kwargs)
        except Exception as e:
            c.ev('order_rejected', str(attributes.get('symbol')), str(attributes.get('side')),
                 str(attributes.get('type')), C.fnum(attributes.get('qty')), C.fnum(attributes.get('price')),
                 type(e).__name__)
            c.dispatch('order_rejected', self, attributes, e)
            raise
        c.ev('order_new', str(self.id), self.symbol, self.side, self.type, C.fnum(self.qty), C.fnum(self.price),
             bool(self.reduce_only), int(self.created_at))
        c.dispatch('order_init', self)

    def order_execute(self, silent=False):
        c = C.cur()
        if c is None or not c.in_session:
            return ORIG['Order.execute'](self, silent)
        before = self.status
        c.ev('exec_begin', str(self.id), before)
        c.dispatch('order_exec_begin', self, before)
        try:
            r = ORIG['Order.execute'](self, silent)
        finally:
            c.ev('exec_end', str(self.id), self.status, None if self.executed_at is None else int(self.executed_at))
        c.dispatch('order_exec_end', self, before)
        return r

    def order_cancel(self, silent=False, source=''):
        c = C.cur()
        if c is None or not c.in_session:
            return ORIG['Order.cancel'](self, silent, source)
        before = self.status
        c.dispatch('order_cancel_begin', self, before)
        r = ORIG['Order.cancel'](self, silent, source)
        c.ev('cancel', str(self.id), before, self.status,
             None if self.canceled_at is None else int(self.canceled_at))
        c.dispatch('order_cancel_end', self, before)
        return r

    Order.__init__ = order_init
    Order.execute = order_execute
    Order.cancel = order_cancel

    # ---------------------------------------------------------------- request attribution (C10)
    from jesse.services.broker import Broker
    Strat = strat_mod.Strategy
    ORIG['_submit_buy_orders'] = Strat._submit_buy_orders
    ORIG['_submit_sell_orders'] = Strat._submit_sell_orders
    ORIG['reduce_position_at'] = Broker.reduce_position_at

    def _submit_buy_orders(self):
        c = C.cur()
        if c is None or not c.in_session:
            return ORIG['_submit_buy_orders'](self)
        c.dispatch('entries_begin', self, 'buy')
        try:
            return ORIG['_submit_buy_orders'](self)
        finally:
            c.dispatch('entries_end', self, 'buy')

    def _submit_sell_orders(self):
        c = C.cur()
        if c is None or not c.in_session:
            return ORIG['_submit_sell_orders'](self)
        c.dispatch('entries_begin', self, 'sell')
        try:
            return ORIG['_submit_sell_orders'](self)
        finally:
            c.dispatch('entries_end', self, 'sell')

    def reduce_position_at(self, qty, price, current_price):
        c = C.cur()
        if c is None or not c.in_session:
            return ORIG['reduce_position_at'](self, qty, price, current_price)
        c.dispatch('reduce_begin', self, qty, price, current_price)
        o = None
        try:
            o = ORIG['reduce_position_at'](self, qty, price, current_price)
            return o
        finally:
            c.dispatch('reduce_end', self, qty, price, current_price, o)

    Strat._submit_buy_orders = _submit_buy_orders
    Strat._submit_sell_orders = _submit_sell_orders
    Broker.reduce_position_at = reduce_position_at

    # ---------------------------------------------------------------- active-list pruning (C05)
    from jesse.store.state_orders import OrdersState
    ORIG['update_active_orders'] = OrdersState.update_active_orders

    def update_active_orders(self, exchange, symbol):
        r = ORIG['update_active_orders'](self, exchange, symbol)
        c = C.cur()
        if c is not None and c.in_session:
            c.dispatch('pruned', self, exchange, symbol)
        return r

    OrdersState.update_active_orders = update_active_orders

    # ---------------------------------------------------------------- candle feed (feed horizon)
    ORIG['add_candle'] = CandlesState.add_candle
    ORIG['add_multiple_1m_candles'] = CandlesState.add_multiple_1m_candles

    def add_candle(self, candle, exchange, symbol, timeframe, *a, **kw):
        c = C.cur()
        if c is None or not c.in_session:
            return ORIG['add_candle'](self, candle, exchange, symbol, timeframe, *a, **kw)
        if timeframe == '1m':
            ts = float(candle[0])
            if ts > c.horizon.get(symbol, -1):
                c.horizon[symbol] = ts
                if ts > c.max_horizon:
                    c.max_horizon = ts
        r = ORIG['add_candle'](self, candle, exchange, symbol, timeframe, *a, **kw)
        c.dispatch('fed', self, exchange, symbol, timeframe)
        return r

    def add_multiple_1m_candles(self, candles, exchange, symbol):
        c = C.cur()
        if c is None or not c.in_session:
            return ORIG['add_multiple_1m_candles'](self, candles, exchange, symbol)
        ts = float(candles[-1, 0])
        if ts > c.horizon.get(symbol, -1):
            c.horizon[symbol] = ts
            if ts > c.max_horizon:
                c.max_horizon = ts
        r = ORIG['add_multiple_1m_candles'](self, candles, exchange, symbol)
        c.dispatch('fed', self, exchange, symbol, '1m')
        return r

    CandlesState.add_candle = add_candle
    CandlesState.add_multiple_1m_candles = add_multiple_1m_candles

    # ---------------------------------------------------------------- matching engine entry points
    for name in ('_simulate_price_change_effect', '_simulate_price_change_effect_multiple_candles',
                 '_check_for_liquidations', '_execute_market_orders', '_execute_routes', 'split_candle',
                 'candle_includes_price', 'save_daily_portfolio_balance', '_get_fixed_jumped_candle',
                 '_generate_outputs'):
        ORIG['bm.' + name] = getattr(bm, name)

    def sim_step(real_candle, exchange, symbol):
        c = C.cur()
        if c is None or not c.in_session:
            return ORIG['bm._simulate_price_change_effect'](real_candle, exchange, symbol)
        c.scratch['budget'] = 0
        c.ev('match_begin', 'step', symbol, C.fnum(real_candle[0]))
        c.dispatch('match_begin', 'step', exchange, symbol, real_candle)
        r = ORIG['bm._simulate_price_change_effect'](real_candle, exchange, symbol)
        c.dispatch('match_end', 'step', exchange, symbol, real_candle)
        c.ev('match_end', 'step', symbol)
        return r

    def sim_fast(short_candles, exchange, symbol):
        c = C.cur()
        if c is None or not c.in_session:
            return ORIG['bm._simulate_price_change_effect_multiple_candles'](short_candles, exchange, symbol)
        # the matching engine has now been handed these candles: they are "known" from here on
        ts = float(short_candles[-1, 0])
        if ts > c.horizon.get(symbol, -1):
            c.horizon[symbol] = ts
            if ts > c.max_horizon:
                c.max_horizon = ts
        c.scratch['budget'] = 0
        c.ev('match_begin', 'fast', symbol, C.fnum(short_candles[0, 0]), len(short_candles))
        c.dispatch('match_begin', 'fast', exchange, symbol, short_candles)
        r = ORIG['bm._simulate_price_change_effect_multiple_candles'](short_candles, exchange, symbol)
        c.dispatch('match_end', 'fast', exchange, symbol, short_candles)
        c.ev('match_end', 'fast', symbol)
        return r

    def check_liq(candle, exchange, symbol):
        c = C.cur()
        if c is None or not c.in_session:
            return ORIG['bm._check_for_liquidations'](candle, exchange, symbol)
        from jesse.store import store
        n0 = store.app.total_liquidations
        c.dispatch('liq_begin', exchange, symbol, candle)
        r = ORIG['bm._check_for_liquidations'](candle, exchange, symbol)
        if store.app.total_liquidations != n0:
            c.count('liquidations_seen')
            c.ev('liquidation', symbol, int(store.app.time))
        c.dispatch('liq_end', exchange, symbol, candle)
        return r

    def exec_market():
        c = C.cur()
        if c is None or not c.in_session:
            return ORIG['bm._execute_market_orders']()
        c.dispatch('market_flush_begin')
        r = ORIG['bm._execute_market_orders']()
        c.dispatch('market_flush_end')
        return r

    def exec_routes(candle_index, candles_step):
        c = C.cur()
        if c is None or not c.in_session:
            return ORIG['bm._execute_routes'](candle_index, candles_step)
        c.dispatch('routes_begin', candle_index, candles_step)
        r = ORIG['bm._execute_routes'](candle_index, candles_step)
        c.dispatch('routes_end', candle_index, candles_step)
        return r

    def split_candle(candle, price):
        c = C.cur()
        r = ORIG['bm.split_candle'](candle, price)
        if c is not None and c.in_session:
            c.dispatch('split', candle, price, r)
        return r

    def includes(candle, price):
        c = C.cur()
        if c is not None and c.in_session:
            b = c.scratch.get('budget', 0) + 1
            c.scratch['budget'] = b
            if b > STEP_BUDGET:
                raise C.SimStepBudgetExceeded(f'{b} range tests inside one matching call')
        return ORIG['bm.candle_includes_price'](candle, price)

    def save_daily(is_initial=False):
        c = C.cur()
        if c is None or not c.in_session:
            return ORIG['bm.save_daily_portfolio_balance'](is_initial)
        r = ORIG['bm.save_daily_portfolio_balance'](is_initial)
        from jesse.store import store
        val = store.app.daily_balance[-1] if store.app.daily_balance else None
        c.ev('daily', bool(is_initial), C.fnum(val), int(store.app.time))
        c.dispatch('daily', is_initial, val)
        return r

    def gen_outputs(*a, **kw):
        c = C.cur()
        if c is not None and c.in_session:
            c.dispatch('finish')
        res = ORIG['bm._generate_outputs'](*a, **kw)
        if c is not None and c.in_session:
            c.dispatch('finished', res)
        return res

    bm._generate_outputs = gen_outputs
    bm._simulate_price_change_effect = sim_step
    bm._simulate_price_change_effect_multiple_candles = sim_fast
    bm._check_for_liquidations = check_liq
    bm._execute_market_orders = exec_market
    bm._execute_routes = exec_routes
    bm.split_candle = split_candle
    bm.candle_includes_price = includes
    bm.save_daily_portfolio_balance = save_daily
