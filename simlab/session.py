"""Session runs: build jesse's arguments from an explicit spec, execute research.backtest for real
under a RunCtx, classify the outcome.  (DESIGN 1, 3.)"""
import traceback

import numpy as np

from . import ctx as C
from .prng import Stream
from . import candles as CG
from . import programs as P

TF_MIN = {'1m': 1, '3m': 3, '5m': 5, '15m': 15, '30m': 30, '45m': 45, '1h': 60, '2h': 120, '3h': 180,
          '4h': 240, '6h': 360, '8h': 480, '12h': 720, '1D': 1440}

LEGAL_REJECTIONS = ('InsufficientMargin', 'InsufficientBalance')

START_TS = 1_609_459_200_000   # 2021-01-01T00:00:00Z, aligned to every timeframe up to 1D


# ---------------------------------------------------------------------------- spec generation
SYMBOL_POOL = ['DOT-USDT', 'EOS-USDT', 'SOL-USDT', '1INCH-USDT', 'LTC-USDT', 'SUSHI-USDT', 'BTC-USDT', 'ETH-USDT']
REAL_NAMES = {'futures': ['Bybit USDT Perpetual', 'Binance Perpetual Futures', 'Gate USDT Perpetual'],
              'spot': ['Binance Spot', 'Bybit Spot', 'Coinbase Spot']}


def pick_symbols(st, pf=None):
    """two distinct symbols of one quote currency: the usual pair in 70 % of the specs, otherwise other names
    (helpers that take a symbol apart must not care what the base asset is called)"""
    if (pf or {}).get('symbols'):
        return list(pf['symbols'])
    if st.chance(0.7, 'usual_pair'):
        return ['BTC-USDT', 'ETH-USDT']
    a = st.choice(SYMBOL_POOL, 'sym_a')
    b = st.choice([x for x in SYMBOL_POOL if x != a], 'sym_b')
    return [a, b]


def pick_exchange_name(st, ex_type):
    """an invented name in 75 % of the specs, otherwise the name of an exchange the framework knows (for which it
    holds defaults such as a list fee that must not leak into a session that configures its own)"""
    if st.chance(0.75, 'invented_name'):
        return 'Sim Spot' if ex_type == 'spot' else 'Sim Futures'
    return st.choice(REAL_NAMES[ex_type], 'real_name')


def gen_spec(seed: int, profile: dict = None) -> dict:
    """One seed -> one explicit session spec (JSON-able except numpy candle arrays)."""
    pf = dict(profile or {})
    st = Stream(seed, 'cfg')
    ex_type = pf.get('type') or st.choice(['futures', 'futures', 'spot'], 'type')
    n_routes = pf.get('n_routes') or st.wchoice([(1, 0.7), (2, 0.3)], 'n_routes')
    pair = pick_symbols(st, pf)
    syms = pair[:n_routes]
    tfs_pool = pf.get('trading_tfs') or ['1m', '1m', '3m', '5m', '15m']
    routes = []
    for i, s in enumerate(syms):
        tf = st.choice(tfs_pool, 'tf', i)
        routes.append({'symbol': s, 'timeframe': tf})
    data_routes = []
    dr_pool = pf.get('data_tfs') or ['3m', '5m', '15m', '30m', '1h', '4h']
    p_dr = pf.get('p_data_route', 0.4)
    for i, s in enumerate(syms):
        if st.chance(p_dr, 'dr', i):
            tf = st.choice(dr_pool, 'drtf', i)
            if tf != routes[i]['timeframe']:
                data_routes.append({'symbol': s, 'timeframe': tf})
    if n_routes == 1 and pf.get('allow_data_symbol', True) and st.chance(0.15, 'dr_other'):
        data_routes.append({'symbol': pair[1], 'timeframe': st.choice(dr_pool, 'drtf_o')})
    all_tfs = [r['timeframe'] for r in routes] + [r['timeframe'] for r in data_routes]
    fast = pf['fast'] if 'fast' in pf else st.chance(0.5, 'fast')
    chunk = int(np.gcd.reduce([TF_MIN[t] for t in all_tfs]))
    lcm_all = int(np.lcm.reduce([TF_MIN[t] for t in all_tfs]))
    # session length
    lo, hi = pf.get('minutes', (30, 900))
    n = st.randint(lo, hi, 'n')
    if fast and not pf.get('fast_any_length') :
        # suspect 12 (fast simulator raises on a trailing short chunk) would otherwise starve fast coverage:
        # thin it to a share of runs
        if not st.chance(pf.get('p_fast_ragged', 0.1), 'ragged'):
            n = max(chunk, (n // chunk) * chunk)
    n = max(n, 2)
    # warm-up
    warm = 0
    if st.chance(pf.get('p_warmup', 0.4), 'warm?'):
        warm = lcm_all * st.randint(1, max(1, min(6, 2000 // lcm_all)), 'warm')
    symbols = {}
    used_syms = sorted(set(syms + [d['symbol'] for d in data_routes]))
    for s in used_syms:
        cp = CG.gen_params(st.sub('cp', s), small_lattice=pf.get('small_lattice', False) or st.chance(pf.get('p_small_lattice', 0.15), 'sl', s))
        symbols[s] = cp
    start_ts = START_TS + 86_400_000 * st.randint(0, 300, 'day0')
    if pf.get('start_ts') is not None:
        start_ts = int(pf['start_ts'])     # (the draw above is still made: keyed streams do not shift)
    spec = {
        'kind': 'session',
        'seed': seed,
        'exchange': pf.get('exchange') or pick_exchange_name(st, ex_type),
        'type': ex_type,
        'leverage': pf.get('leverage') or st.choice([1, 2, 3, 5, 10, 20, 50, 100, 125], 'lev'),
        'mode': pf.get('mode') or st.choice(['cross', 'cross', 'isolated'], 'mode'),
        'fee': pf['fee'] if 'fee' in pf else st.choice([0.0, 0.0004, 0.001, 0.002], 'fee'),
        'balance': pf.get('balance') or st.choice([1000, 10_000, 250_000], 'bal'),
        'routes': routes,
        'data_routes': data_routes,
        'warmup': warm,
        'fast': bool(fast),
        'minutes': n,
        'start_ts': start_ts,
        'symbols': symbols,
        'tails': pf.get('tails', []),
        'hyperparameters': None,
        'route_order': list(range(len(routes))),
        'feed_order': list(range(len(used_syms))),
    }
    if len(routes) == 2 and st.chance(0.5, 'rorder'):
        spec['route_order'] = [1, 0]
    if len(used_syms) == 2 and st.chance(0.5, 'forder'):
        spec['feed_order'] = [1, 0]
    for i, r in enumerate(routes):
        r['program'] = P.gen_program(st.sub('prog', i), ex_type, pf.get('program'))
    if pf.get('hp'):
        spec['_hp_partial'] = bool(pf.get('hp_partial'))
        gen_hp(spec, st)
    return spec


def gen_hp(spec, st):
    """hyperparameter supply per route (C19): none / defaults / dna / explicit / explicit+dna"""
    alphabet = ''.join(chr(i) for i in range(40, 120))
    mode = st.choice(['none', 'defaults', 'dna', 'explicit', 'explicit+dna', 'dna', 'defaults'], 'hpmode')
    spec['hp_mode'] = mode
    for i, r in enumerate(spec['routes']):
        s = st.sub('hp', i)
        rmode = mode if i == 0 else s.choice(['none', 'defaults', 'dna'], 'rmode')
        r['hp_mode'] = rmode
        if rmode == 'none':
            continue
        decl = []
        for j in range(s.randint(1, 5, 'n')):
            typ = s.choice(['int', 'float'], 't', j)
            if typ == 'int':
                lo = s.randint(-50, 50, 'lo', j)
                hi = lo + s.randint(1, 200, 'span', j)
                default = s.randint(lo, hi, 'def', j)
            else:
                lo = round((s.u('lo', j) - 0.5) * s.choice([1, 10, 1000], 'sc', j), 4)
                hi = round(lo + s.u('span', j) * s.choice([0.5, 10, 1000], 'sc2', j) + 0.001, 4)
                default = round(lo + (hi - lo) * s.u('def', j), 6)
            if s.chance(0.12, 'degenerate', j):
                # a declaration with min == max (a parameter pinned for this study): still one gene of the DNA
                hi = lo
                default = lo
            # same names on every route (two versions of one strategy): only bounds and types differ
            decl.append({'name': f'p{j}', 'type': typ, 'min': lo, 'max': hi, 'default': default})
        r['program']['hp_decl'] = decl
        if 'dna' in rmode:
            genes = []
            for j in range(len(decl)):
                x = s.u('gene', j)
                if x < 0.1:
                    genes.append(alphabet[0])
                elif x < 0.2:
                    genes.append(alphabet[-1])
                else:
                    genes.append(alphabet[s.randint(0, 79, 'g', j)])
            r['program']['dna'] = ''.join(genes)
            if i > 0 and spec['routes'][0]['program'].get('dna') and s.chance(0.5, 'same_dna'):
                d0 = spec['routes'][0]['program']['dna']
                r['program']['dna'] = (d0 + r['program']['dna'])[:len(decl)] if len(d0) < len(decl) else d0[:len(decl)]
    if 'explicit' in mode:
        decl = spec['routes'][0]['program']['hp_decl']
        hp = {}
        for j, d in enumerate(decl):
            if d['type'] == 'int':
                hp[d['name']] = st.randint(d['min'], d['max'], 'xhp', j)
            else:
                hp[d['name']] = round(d['min'] + (d['max'] - d['min']) * st.u('xhp', j), 6)
        if spec.get('_hp_partial') and len(hp) >= 2 and st.chance(0.5, 'xhp_partial'):
            # a caller that overrides only some of the declared parameters
            del hp[decl[st.randint(0, len(decl) - 1, 'xhp_drop')]['name']]
            spec['hp_partial'] = True
        spec['hyperparameters'] = hp


def build_candles(spec) -> dict:
    """symbol -> full (warmup+trading) candle array (the harness's own copy of the input)"""
    out = {}
    total = spec['warmup'] + spec['minutes']
    t0 = spec['start_ts'] - spec['warmup'] * 60_000
    given = spec.get('candles')
    for s, cp in spec['symbols'].items():
        if given and s in given:
            out[s] = np.array(given[s], dtype=np.float64)
            continue
        tails = [(t['cut'] + spec['warmup'], t['id'], t.get('shift', 0)) for t in spec.get('tails', [])
                 if t.get('symbol', s) == s]
        arr, _ = CG.gen_series(spec['seed'], s, total, t0, cp, tails)
        out[s] = arr
    return out


# ---------------------------------------------------------------------------- execution
def jesse_args(spec, full_candles):
    ex = spec['exchange']
    config = {
        'starting_balance': spec['balance'],
        'fee': spec['fee'],
        'type': spec['type'],
        'futures_leverage': spec['leverage'],
        'futures_leverage_mode': spec['mode'],
        'exchange': ex,
        'warm_up_candles': spec.get('warm_up_candles_cfg', max(spec['warmup'], 0)),
    }
    order = spec.get('route_order') or list(range(len(spec['routes'])))
    routes = []
    for i in order:
        r = spec['routes'][i]
        routes.append({'exchange': ex, 'strategy': P.strategy_class_for_route(i), 'symbol': r['symbol'],
                       'timeframe': r['timeframe']})
    data_routes = [{'exchange': ex, 'symbol': d['symbol'], 'timeframe': d['timeframe']} for d in spec['data_routes']]
    syms = sorted(full_candles.keys())
    forder = spec.get('feed_order') or list(range(len(syms)))
    if len(forder) != len(syms):
        forder = list(range(len(syms)))
    w = spec['warmup']
    candles = {}
    warm = {}
    for j in forder:
        s = syms[j]
        key = f'{ex}-{s}'
        candles[key] = {'exchange': ex, 'symbol': s, 'candles': full_candles[s][w:].copy()}
        if w > 0:
            warm[key] = {'exchange': ex, 'symbol': s, 'candles': full_candles[s][:w].copy()}
    return config, routes, data_routes, candles, (warm if w > 0 else None)


def top_jesse_frame(tb) -> str:
    """function name of the innermost frame that belongs to jesse (for fingerprints)"""
    name = '?'
    for fs in traceback.extract_tb(tb):
        if '/jesse/' in fs.filename and '/simlab/' not in fs.filename:
            name = f'{fs.filename.rsplit("/", 1)[-1]}:{fs.name}'
    return name


def run_backtest(c: C.RunCtx, spec, full_candles, label='s', args=None):
    """run one research.backtest under ctx `c`.  Returns outcome dict.
    `args`: argument objects to pass instead of freshly built ones (a caller re-using its objects)"""
    from jesse import research
    config, routes, data_routes, candles, warm = args if args is not None else jesse_args(spec, full_candles)
    c.session_no += 1
    c.in_session = True
    c.spec = spec
    c.scratch['fault_fired'] = False
    c.scratch['full_candles'] = full_candles
    c.scratch['args'] = (config, routes, data_routes, candles, warm)
    c.ev('session_begin', label)
    c.dispatch('session_begin', spec, full_candles)
    out = {'status': 'ok', 'result': None, 'exc': None}
    try:
        res = research.backtest(config, routes, data_routes, candles, warm,
                                hyperparameters=spec.get('hyperparameters'),
                                fast_mode=spec['fast'],
                                generate_equity_curve=bool(spec.get('equity_curve')))
        out['result'] = res
    except C.Violation:
        out['status'] = 'violation-abort'
    except C.InjectedFault as e:
        out['status'] = 'injected-fault'
        out['exc'] = repr(e)
    except C.SimStepBudgetExceeded as e:
        out['status'] = 'step-budget'
        out['exc'] = repr(e)
    except Exception as e:
        name = type(e).__name__
        out['exc'] = f'{name}: {e}'
        out['exc_type'] = name
        out['where'] = top_jesse_frame(e.__traceback__)
        out['tb'] = traceback.format_exc()[-3000:]
        frames = traceback.extract_tb(e.__traceback__)
        if frames and '/simlab/' in frames[-1].filename:
            # raised by harness code (strategy program / monitor), not by jesse
            out['status'] = 'harness-exception'
        elif name in LEGAL_REJECTIONS:
            out['status'] = 'legal-rejection'
        else:
            out['status'] = 'exception'
    finally:
        c.in_session = False
    c.ev('session_end', label, out['status'], out.get('exc_type'))
    c.count('status_' + out['status'])
    c.dispatch('session_end', spec, out)
    return out
