"""Order-level monitors.

Registry      - every order ever constructed in the run (observed at Order.__init__, because production
                mode clears store.orders.storage); the model of C05 and the base of the others.
MatchMonitor  - C02 (fills exactly when/where price reaches them) and C08 (single continuous price path,
                split_candle algebra) with the PathMatcher reference model.
"""
import numpy as np

from . import ctx as C
from . import candles as CG

ACTIVE, EXECUTED, CANCELED = 'ACTIVE', 'EXECUTED', 'CANCELED'


class Rec:
    __slots__ = ('order', 'id', 'symbol', 'side', 'type', 'qty', 'price', 'reduce_only', 'created_time',
                 'created_hz', 'created_maxhz', 'status', 'in_match', 'in_liq', 'cur_price', 'seq',
                 'strategy_price', 'transitions', 'submitted_pos_qty', 'final_seq', 'last_fill_price')


class Registry:
    """must be the first monitor: others read c.scratch['registry']"""

    def session_begin(self, c, spec, full_candles):
        self.recs = {}
        self.by_symbol = {}
        self.in_match = None
        self.in_liq = False
        c.scratch['registry'] = self
        self.ex = spec['exchange']

    def match_begin(self, c, kind, exchange, symbol, candle):
        self.in_match = (symbol, kind)

    def match_end(self, c, kind, exchange, symbol, candle):
        self.in_match = None

    def liq_begin(self, c, exchange, symbol, candle):
        self.in_liq = True

    def liq_end(self, c, exchange, symbol, candle):
        self.in_liq = False

    def order_init(self, c, order):
        from jesse.services import selectors
        r = Rec()
        r.order = order
        r.id = str(order.id)
        r.symbol = order.symbol
        r.side = order.side
        r.type = order.type
        r.qty = float(order.qty)
        r.price = None if order.price is None else float(order.price)
        r.reduce_only = bool(order.reduce_only)
        r.created_time = int(order.created_at)
        r.created_hz = c.horizon.get(order.symbol, -1)
        r.created_maxhz = c.max_horizon
        r.status = ACTIVE
        r.in_match = self.in_match
        r.in_liq = self.in_liq
        r.seq = c.seq
        r.transitions = 0
        r.strategy_price = None
        r.final_seq = None
        r.last_fill_price = None
        p = selectors.get_position(order.exchange, order.symbol)
        r.cur_price = None if p is None or p.current_price is None else float(p.current_price)
        r.submitted_pos_qty = None if p is None else float(p.qty)
        if r.id in self.recs:
            c.violate('C05', 'duplicate-id', 'C05|duplicate-order-id', {'id': r.id})
        self.recs[r.id] = r
        self.by_symbol.setdefault(order.symbol, []).append(r)
        c.count('orders_created')
        c.count('orders_' + str(order.type).lower())

    def rec_of(self, order):
        return self.recs.get(str(order.id))

    def active(self, symbol):
        return [r for r in self.by_symbol.get(symbol, []) if r.status == ACTIVE]

    # model transitions (performed by LifecycleMonitor or, if absent, here)
    def order_exec_end(self, c, order, before):
        r = self.rec_of(order)
        if r is not None and before == ACTIVE and r.status == ACTIVE and order.status == EXECUTED:
            r.status = EXECUTED
            r.transitions += 1
            r.final_seq = c.seq

    def order_cancel_end(self, c, order, before):
        r = self.rec_of(order)
        if r is not None and before == ACTIVE and r.status == ACTIVE and order.status == CANCELED:
            r.status = CANCELED
            r.transitions += 1
            r.final_seq = c.seq


# =============================================================================== PathMatcher
class Path:
    """the minute's price path as a polyline: O->L->H->C (close >= open) or O->H->L->C."""

    def __init__(self, o, c, h, l):
        self.pts = [o, l, h, c] if c >= o else [o, h, l, c]
        self.cum = [0.0]
        for j in range(3):
            self.cum.append(self.cum[-1] + abs(self.pts[j + 1] - self.pts[j]))

    def price_at(self, d):
        for j in range(3):
            if d <= self.cum[j + 1] or j == 2:
                a, b = self.pts[j], self.pts[j + 1]
                x = d - self.cum[j]
                return a + x if b >= a else a - x
        return self.pts[-1]

    def reach(self, d0, p):
        """smallest (seg, distance) with distance >= d0 where the path equals p; None if never.
        Distances are computed from segment start + |p-a| so that equal prices give equal distances."""
        for j in range(3):
            if self.cum[j + 1] < d0:
                continue
            a, b = self.pts[j], self.pts[j + 1]
            lo, hi = (a, b) if a <= b else (b, a)
            if lo <= p <= hi:
                d = self.cum[j] + abs(p - a)
                if d >= d0:
                    return d
                # p lies on this segment but behind the cursor
                continue
        return None

    def remainder(self, d):
        """(open, close, high, low) of the part of the path from distance d to the end"""
        p0 = self.price_at_exact(d)
        prices = [p0]
        for j in range(3):
            if self.cum[j + 1] > d:
                prices.append(self.pts[j + 1])
        prices.append(self.pts[-1])
        return p0, self.pts[-1], max(prices), min(prices)

    def price_at_exact(self, d):
        # overridden by the matcher with the exact order price (avoids a+x round-off)
        return self.price_at(d)


class MatchMonitor:
    """C02 + C08.  Requires Registry before it in the monitor list."""

    def __init__(self, props=('C02', 'C08')):
        self.props = props

    def session_begin(self, c, spec, full_candles):
        self.spec = spec
        self.fast = spec['fast']
        self.w = spec['warmup']
        self.norm = {}
        self.t0 = {}
        for s, a in full_candles.items():
            tr = a[self.w:]
            self.norm[s] = CG.normalised(tr)
            self.t0[s] = float(tr[0, 0])
        self.cur = None   # current matching call state
        self.split_pending = None

    # ------------------------------------------------------------------ helpers
    def v(self, c, prop, clause, fp, detail):
        if prop in self.props:
            c.violate(prop, clause, fp, detail)

    def own_row(self, sym, ts):
        i = int(round((ts - self.t0[sym]) / 60_000))
        n = self.norm[sym]
        if i < 0 or i >= len(n):
            return None, i
        return n[i], i

    def ext_range(self, sym, i):
        """range of minute i extended to the previous close, from the harness's own copy"""
        n = self.norm[sym]
        row = n[i]
        lo, hi = float(row[4]), float(row[3])
        return lo, hi

    # ------------------------------------------------------------------ matching call brackets
    def match_begin(self, c, kind, exchange, symbol, candle):
        reg = c.scratch['registry']
        s0 = [r for r in reg.active(symbol) if r.type in ('LIMIT', 'STOP')]
        st = {'kind': kind, 'symbol': symbol, 's0': s0, 'fills': 0, 'created': []}
        if kind == 'step':
            ts = float(candle[0])
            row, i = self.own_row(symbol, ts)
            if row is None:
                self.v(c, 'C02', 'unknown-minute', 'C02|unknown-minute', {'ts': ts})
                self.cur = None
                return
            st['i'] = i
            st['row'] = row
            o, cl, h, l = float(row[1]), float(row[2]), float(row[3]), float(row[4])
            st['path'] = Path(o, cl, h, l)
            st['d'] = 0.0
            st['dprice'] = o
            st['lo'], st['hi'] = l, h
            # pending market orders must not survive into a later candle
            self.check_pending_market(c, reg, ts)
        else:
            ts0 = float(candle[0, 0])
            row, i0 = self.own_row(symbol, ts0)
            if row is None:
                self.cur = None
                return
            st['i0'] = i0
            st['n'] = len(candle)
            rng = []
            for j in range(len(candle)):
                if i0 + j < len(self.norm[symbol]):
                    rw = self.norm[symbol][i0 + j]
                    lo, hi = float(rw[4]), float(rw[3])
                    raw_lo, raw_hi = lo, hi
                    if j > 0 or i0 > 0:
                        # extension to the previous close (the harness copy is fully normalised, which
                        # already contains it); raw range = without the extension
                        pc = float(self.norm[symbol][i0 + j - 1][2]) if i0 + j > 0 else None
                        inp = c.scratch['full_candles'][symbol][self.w + i0 + j]
                        raw_lo, raw_hi = float(inp[4]), float(inp[3])
                    rng.append((lo, hi, raw_lo, raw_hi))
            st['rng'] = rng
            self.check_pending_market(c, reg, ts0)
        self.cur = st
        if kind == 'step' and 'C08' in self.props:
            self.split_ride_along(c, candle, st)
        c.count('match_calls')
        if s0:
            c.count('match_calls_with_resting')

    def split_ride_along(self, c, candle, st):
        """the splitting algebra is stated for ANY price inside the range: besides the calls the simulator makes,
        split this minute's candle at a few more prices of its range (O, H, L, C and two interior points)"""
        import jesse.services.candle as svc
        from .prng import H
        o, cl, h, l = float(candle[1]), float(candle[2]), float(candle[3]), float(candle[4])
        prices = {o, cl, h, l}
        if h > l:
            k = H(self.spec['seed'], 'split', st['symbol'], st['i'])
            prices.add(l + (h - l) * ((k % 997) / 997.0))
            prices.add(l + (h - l) * (((k >> 12) % 991) / 991.0))
        for p in sorted(prices):
            try:
                r = svc.split_candle(np.array(candle, dtype=float), p)
            except Exception as e:
                self.v(c, 'C08', 'split-algebra', f'C08|split-raised|{type(e).__name__}', {'candle': np.asarray(candle).tolist(), 'price': p})
                continue
            c.count('split_ride_along_calls')
            ok, why = True, None
            try:
                e_, l_ = r
                for part in (e_, l_):
                    if not (part[4] <= part[1] <= part[3] and part[4] <= part[2] <= part[3]):
                        ok, why = False, 'invalid-part'
                if ok and not (e_[1] == o and l_[2] == cl):
                    ok, why = False, 'open-close-not-kept'
                if ok and not (max(e_[3], l_[3]) == h and min(e_[4], l_[4]) == l):
                    ok, why = False, 'high-low-not-kept'
                if ok and p != o and not (e_[2] == p and l_[1] == p):
                    ok, why = False, 'do-not-meet-at-price'
            except Exception as ex:
                ok, why = False, f'malformed:{type(ex).__name__}'
            if not ok:
                self.v(c, 'C08', 'split-algebra', f'C08|split-algebra|{why}|ride-along',
                       {'candle': np.asarray(candle).tolist(), 'price': p,
                        'result': [np.asarray(x).tolist() for x in r] if r is not None else None})
                return

    def check_pending_market(self, c, reg, ts):
        for r in reg.recs.values():
            if r.type == 'MARKET' and r.status == ACTIVE and r.order.status == ACTIVE and r.created_maxhz < ts and not r.in_liq:
                if r.created_maxhz >= 0:
                    self.v(c, 'C02', 'market-pending-across-candles',
                           f'C02|market-pending-across-candles|fast={int(self.fast)}',
                           {'id': r.id, 'created_hz': r.created_maxhz, 'now': ts})

    def order_init(self, c, order):
        if self.cur is not None and order.symbol == self.cur['symbol']:
            self.cur['created'].append(str(order.id))
            # a plain MARKET order created in reaction to a fill: "the current price at the moment it is
            # submitted" is the price the path has reached, i.e. the price of that fill
            lf = self.cur.get('last_fill_price')
            if order.type == 'MARKET' and not order.reduce_only and lf is not None:
                c.count('market_orders_created_mid_minute')
                if self.cur.get('last_fill_at_cursor'):
                    c.count('market_orders_created_at_a_fill_on_the_remainder_open')
                elif float(order.price) != lf:
                    self.v(c, 'C02', 'market-price', f"C02|market-order-created-at-a-fill-not-priced-at-that-fill|fast={int(self.fast)}",
                           {'id': str(order.id), 'price': float(order.price), 'fill_price': lf})

    def split(self, c, candle, price, result):
        st = self.cur
        if st is None:
            return
        # ---- algebra (C08, every call)
        try:
            e, l = result
            ok = True
            why = None
            for part in (e, l):
                if not (part[4] <= part[1] <= part[3] and part[4] <= part[2] <= part[3]):
                    ok, why = False, 'invalid-part'
            if ok and not (e[1] == candle[1] and l[2] == candle[2]):
                ok, why = False, 'open-close-not-kept'
            if ok and not (max(e[3], l[3]) == candle[3] and min(e[4], l[4]) == candle[4]):
                ok, why = False, 'high-low-not-kept'
            if ok and price != candle[1] and not (e[2] == price and l[1] == price):
                ok, why = False, 'do-not-meet-at-price'
            if ok and not (e[0] == candle[0] and l[0] == candle[0]):
                ok, why = False, 'timestamp'
        except Exception as ex:
            ok, why = False, f'malformed:{type(ex).__name__}'
        c.count('split_calls')
        if not ok:
            self.v(c, 'C08', 'split-algebra', f'C08|split-algebra|{why}',
                   {'candle': np.asarray(candle).tolist(), 'price': float(price),
                    'result': [np.asarray(x).tolist() for x in result] if result is not None else None})
            return
        if st['kind'] != 'step':
            return
        # ---- remainder vs PathMatcher
        path = st['path']
        p = float(price)
        d = path.reach(st['d'], p)
        if d is None:
            self.v(c, 'C08', 'split-price-unreachable', 'C08|split-price-not-on-remaining-path',
                   {'price': p, 'cursor': st['d'], 'pts': path.pts})
            self.split_pending = None
            return
        prices = [p]
        for j in range(3):
            if path.cum[j + 1] > d:
                prices.append(path.pts[j + 1])
        prices.append(path.pts[-1])
        want = (p, path.pts[-1], max(prices), min(prices))
        got = (float(l[1]), float(l[2]), float(l[3]), float(l[4]))
        if got != want:
            self.v(c, 'C08', 'split-remainder', 'C08|split-remainder-differs-from-path',
                   {'price': p, 'got': got, 'want': want, 'pts': path.pts, 'cursor': st['d']})
        self.split_pending = (p, d)

    def order_exec_begin(self, c, order, before):
        if before != ACTIVE:
            return
        reg = c.scratch['registry']
        r = reg.rec_of(order)
        st = self.cur
        typ = order.type
        if typ in ('LIMIT', 'STOP'):
            c.count('resting_fills')
            # filled exactly at its own submitted price and quantity
            if r is not None and (float(order.qty) != r.qty or float(order.price) != r.price):
                self.v(c, 'C02', 'fill-attrs-changed', 'C02|fill-price-or-qty-differs-from-submission',
                       {'id': r.id, 'submitted': [r.qty, r.price], 'now': [float(order.qty), float(order.price)]})
            if st is None or st['symbol'] != order.symbol:
                self.v(c, 'C02', 'fill-outside-matching', f'C02|resting-fill-outside-matching|fast={int(self.fast)}',
                       {'id': str(order.id), 'type': typ})
                return
            st['fills'] += 1
            st['last_fill_price'] = float(order.price)
            if st['kind'] == 'step':
                self.step_fill(c, st, reg, r, order)
            else:
                self.fast_fill(c, st, reg, r, order)
        elif typ == 'MARKET' and r is not None and not r.in_liq:
            c.count('market_fills')
            if st is not None and st['symbol'] == order.symbol:
                # jesse's matching loop treats a pending MARKET order whose price lies on the remaining
                # path like any other order (it splits the candle at that price): follow it with the cursor
                c.count('market_filled_by_matcher')
                st['fills'] += 1
                st['last_fill_price'] = float(order.price)
                if st['kind'] == 'step':
                    self.step_fill(c, st, reg, r, order, market=True)
            # filled before any later candle is processed
            if r.created_maxhz >= 0 and c.max_horizon > r.created_maxhz and not self.fast:
                self.v(c, 'C02', 'market-late', 'C02|market-filled-after-later-candle',
                       {'id': r.id, 'created_hz': r.created_maxhz, 'now_hz': c.max_horizon})
            # at the current price of the moment it was submitted
            if r.cur_price is not None:
                if not r.reduce_only:
                    if float(order.price) != r.cur_price:
                        self.v(c, 'C02', 'market-price', 'C02|market-entry-price-not-current',
                               {'id': r.id, 'price': float(order.price), 'current_at_submit': r.cur_price})
                else:
                    if abs(1 - float(order.price) / r.cur_price) > 0.00015 * (1 + 1e-6):
                        self.v(c, 'C02', 'market-price', 'C02|market-exit-price-outside-band',
                               {'id': r.id, 'price': float(order.price), 'current_at_submit': r.cur_price})

    def step_fill(self, c, st, reg, r, order, market=False):
        path = st['path']
        p = float(order.price)
        d0 = st['d']
        d = path.reach(d0, p)
        if not (st['lo'] <= p <= st['hi']):
            self.v(c, 'C02', 'fill-outside-range', 'C02|step|fill-outside-minute-range',
                   {'id': str(order.id), 'price': p, 'range': [st['lo'], st['hi']], 'minute': st['i']})
        if d is None:
            self.v(c, 'C08', 'fill-not-on-remaining-path', 'C08|fill-behind-cursor',
                   {'id': str(order.id), 'price': p, 'cursor': d0, 'pts': path.pts,
                    'created_in_call': str(order.id) in st['created']})
            return
        # no other active order may be reachable strictly earlier
        for o in ([] if market else reg.active(order.symbol)):
            if o.order is order or o.type not in ('LIMIT', 'STOP') or o.order.status != ACTIVE:
                continue
            do = path.reach(d0, o.price)
            if do is not None and do < d:
                self.v(c, 'C08', 'overtaken',
                       f'C08|order-reachable-earlier-was-skipped|created-in-call={int(o.id in st["created"])}',
                       {'filled': [str(order.id), p, d], 'skipped': [o.id, o.price, do], 'pts': path.pts, 'cursor': d0})
                break
        # a fill exactly where the cursor already stands (the open of the minute, or the price of the previous fill):
        # by the splitting rule C08 states ("for any price other than the open") the candle published for it is the
        # whole remainder, so "the current price" of that moment is the remainder's close, not the fill price
        st['last_fill_at_cursor'] = (d == d0)
        st['d'] = d
        if st['fills'] >= 2:
            c.count('minutes_with_2+_fills')
        if str(order.id) in st['created']:
            c.count('reaction_order_filled_same_minute')

    def fast_fill(self, c, st, reg, r, order):
        from jesse.store import store
        p = float(order.price)
        m = int(round((float(store.app.time) - 60_000 - self.t0[order.symbol]) / 60_000)) - st['i0']
        rng = st['rng']
        if m < 0 or m >= len(rng):
            self.v(c, 'C02', 'fast-fill-minute', 'C02|fast|fill-minute-outside-chunk', {'m': m, 'n': len(rng)})
            return
        lo, hi = rng[m][0], rng[m][1]
        if not (lo <= p <= hi):
            self.v(c, 'C02', 'fill-outside-range', 'C02|fast|fill-outside-minute-range',
                   {'id': str(order.id), 'price': p, 'range': [lo, hi], 'minute': st['i0'] + m})
            return
        # first minute, from submission onward, whose range contains the price
        # same corner as in the step simulator: a fill at the open of its minute (raw open or previous close) or at the
        # price of the previous fill of that minute publishes the whole remainder
        fc = c.scratch.get('full_candles', {}).get(order.symbol)
        at_cursor = (st.get('prev_fill') == (m, p))
        if fc is not None:
            k = self.w + st['i0'] + m
            if 0 <= k < len(fc) and (p == float(fc[k][1]) or (k > 0 and p == float(fc[k - 1][2]))):
                at_cursor = True
        st['last_fill_at_cursor'] = at_cursor
        st['prev_fill'] = (m, p)
        created_in_chunk = r is not None and r.id in st['created']
        start = 0
        if created_in_chunk:
            start = int(round((r.created_time - 60_000 - self.t0[order.symbol]) / 60_000)) - st['i0'] + 1
        for j in range(max(0, start), m):
            if rng[j][0] <= p <= rng[j][1]:
                self.v(c, 'C02', 'fast-not-first-minute', f'C02|fast|filled-later-than-first-reaching-minute|new={int(created_in_chunk)}',
                       {'id': str(order.id), 'price': p, 'fill_minute': m, 'first': j})
                break

    def match_end(self, c, kind, exchange, symbol, candle):
        st = self.cur
        self.cur = None
        if st is None:
            return
        reg = c.scratch['registry']
        if kind == 'step':
            path = st['path']
            for r in reg.active(symbol):
                if r.type not in ('LIMIT', 'STOP') or r.order.status != ACTIVE:
                    continue
                d = path.reach(st['d'], r.price)
                if d is not None:
                    new = r.id in st['created']
                    self.v(c, 'C02', 'left-unfilled',
                           f'C02|step|active-order-left-with-price-on-remaining-path|new={int(new)}',
                           {'id': r.id, 'price': r.price, 'pts': path.pts, 'cursor': st['d'], 'type': r.type})
        else:
            rng = st['rng']
            for r in reg.active(symbol):
                if r.type not in ('LIMIT', 'STOP') or r.order.status != ACTIVE:
                    continue
                new = r.id in st['created']
                start = 0
                if new:
                    start = int(round((r.created_time - 60_000 - self.t0[symbol]) / 60_000)) - st['i0'] + 1
                hit = [j for j in range(max(0, start), len(rng)) if rng[j][0] <= r.price <= rng[j][1]]
                if hit:
                    gap_only = not any(rng[j][2] <= r.price <= rng[j][3] for j in hit)
                    ncand = sum(1 for x in st['s0'] if any(q[0] <= x.price <= q[1] for q in rng))
                    self.v(c, 'C02', 'left-unfilled',
                           f'C02|fast|active-order-left-with-price-in-chunk-range|new={int(new)}|gap-only={int(gap_only)}|cands>=2={int(ncand >= 2)}',
                           {'id': r.id, 'price': r.price, 'minutes': hit[:4], 'ranges': [rng[j] for j in hit[:2]]})

    def finish(self, c):
        reg = c.scratch['registry']
        for r in reg.recs.values():
            if r.type == 'MARKET' and r.order.status == ACTIVE:
                self.v(c, 'C02', 'market-never-filled', 'C02|market-order-never-reached-final-state', {'id': r.id})
