"""C09 (liquidation seam oracle), C10 (routing + declarative exits), C16 (equity series + metric
identities), C19 (hyperparameter exposure + DNA decode).  All require Registry first."""
import math

import numpy as np

from . import ctx as C
from . import candles as CG

ACTIVE, EXECUTED, CANCELED = 'ACTIVE', 'EXECUTED', 'CANCELED'
BAND = 0.00015


# ===================================================================================== C09
class LiquidationMonitor:
    def __init__(self, props=('C09',)):
        self.props = props

    def v(self, c, clause, fp, detail):
        if 'C09' in self.props:
            c.violate('C09', clause, fp, detail)

    def session_begin(self, c, spec, full_candles):
        self.spec = spec
        self.ex = spec['exchange']
        self.isolated = spec['type'] == 'futures' and spec['mode'] == 'isolated'
        self.L = float(spec['leverage'])
        self.f = float(spec['fee'])
        self.w = spec['warmup']
        self.norm = {}
        self.t0 = {}
        for s, a in full_candles.items():
            tr = a[self.w:]
            self.norm[s] = CG.normalised(tr)
            self.t0[s] = float(tr[0, 0])
        self.chunk_len = {}
        self.pre = None
        self.events = []     # (minute index, symbol, liq price, entry, side) observed at every open isolated check
        c.scratch['liq_events'] = self.events

    def match_begin(self, c, kind, exchange, symbol, candle):
        self.chunk_len[symbol] = 1 if kind == 'step' else len(candle)

    def match_end(self, c, kind, exchange, symbol, candle):
        from jesse.store import store
        self.matched = getattr(self, 'matched', {})
        t0 = float(candle[0]) if kind == 'step' else float(candle[0, 0])
        n = 1 if kind == 'step' else len(candle)
        self.matched[symbol] = (t0, t0 + (n - 1) * 60_000)
        # the minute's (chunk's) orders are matched: from here on an open isolated position whose range
        # contains its liquidation price has to be force-closed before the strategies run
        self.owed = getattr(self, 'owed', {})
        self.owed.pop(symbol, None)
        p = store.positions.storage.get(f'{exchange}-{symbol}')
        if p is not None and self.isolated and float(p.qty) != 0:
            rng = self.own_range(symbol, p.opened_at)
            if rng is not None:
                liq = float(p.liquidation_price)
                if rng[0] <= liq <= rng[1]:
                    self.owed[symbol] = {'liq': liq, 'range': [rng[0], rng[1]], 'qty': float(p.qty), 'ts': t0}

    def hook(self, c, strat, hook, extra):
        # strategy steps come after the liquidation checks of every symbol
        if hook == 'before' and getattr(self, 'owed', None):
            from jesse.store import store
            for sym, info in list(self.owed.items()):
                p = store.positions.storage.get(f'{self.ex}-{sym}')
                self.owed.pop(sym, None)
                if p is not None and float(p.qty) == info['qty']:
                    self.v(c, 'not-liquidated', f"C09|position-survives-minute-containing-liquidation-price|never-checked|fast={int(self.spec['fast'])}|symbols={min(len(self.norm), 2)}",
                           info)

    def own_range(self, symbol, opened_at):
        """range of the minute (step) / of the chunk's minutes the position has lived through (fast),
        computed from the harness copy of the input"""
        span = getattr(self, 'matched', {}).get(symbol)
        if span is None:
            return None
        i0 = int(round((span[0] - self.t0[symbol]) / 60_000))
        i1 = int(round((span[1] - self.t0[symbol]) / 60_000))
        i = i0
        if opened_at is not None:
            j = int(round((opened_at - 60_000 - self.t0[symbol]) / 60_000))
            i = min(max(i0, j), i1)
        rows = self.norm[symbol][i:i1 + 1]
        if len(rows) == 0:
            return None
        return float(rows[:, 4].min()), float(rows[:, 3].max()), i0

    def liq_begin(self, c, exchange, symbol, candle):
        from jesse.store import store
        p = store.positions.storage.get(f'{exchange}-{symbol}')
        self.pre = None
        if p is None:
            return
        rng = self.own_range(symbol, p.opened_at if float(p.qty) != 0 else None)
        if rng is None:
            return
        lo, hi, i = rng
        getattr(self, 'owed', {}).pop(symbol, None)
        reg = c.scratch['registry']
        ex = store.exchanges.storage[exchange]
        # "still open AFTER the resting orders of the minute (chunk) have been matched"
        span = getattr(self, 'matched', {}).get(symbol)
        if float(p.qty) != 0 and self.isolated and not (span is not None and span[0] <= float(candle[0]) <= span[1]):
            self.v(c, 'check-before-matching', f"C09|liquidation-checked-before-the-minutes-orders-were-matched|fast={int(self.spec['fast'])}",
                   {'candle_ts': float(candle[0]), 'last_matched': span})
        q0 = float(p.qty)
        e0 = None if p.entry_price is None else float(p.entry_price)
        is_open = q0 != 0
        liq = None
        eligible = False
        if is_open and self.isolated:
            liq = float(p.liquidation_price)
            side = 'long' if q0 > 0 else 'short'
            bank = e0 * (1 - 1 / self.L) if q0 > 0 else e0 * (1 + 1 / self.L)
            self.events.append((i, symbol, liq, e0, side, bank, self.chunk_len.get(symbol, 1)))
            c.count('c09_open_isolated_checks')
            # the liquidation price lies strictly between entry and bankruptcy on the losing side
            if self.L > 1:
                ok = (bank < liq < e0) if q0 > 0 else (e0 < liq < bank)
                if not ok:
                    self.v(c, 'liq-price-placement', f'C09|liquidation-price-not-strictly-between-entry-and-bankruptcy|{side}',
                           {'entry': e0, 'liq': liq, 'bankruptcy': bank, 'leverage': self.L})
            eligible = lo <= liq <= hi
            if eligible:
                c.count('c09_eligible')
            d = min(abs(liq - lo), abs(liq - hi))
            if d == 0:
                c.count('c09_touch_exact')
            elif d <= 1e-9 * abs(liq):
                c.count('c09_within_ulps')
        self.pre = {
            'symbol': symbol, 'q0': q0, 'e0': e0, 'eligible': eligible, 'liq': liq, 'lo': lo, 'hi': hi,
            'W0': float(ex.wallet_balance), 'n0': int(store.app.total_liquidations),
            'resting': [r for r in reg.active(symbol)], 'norders': len(reg.recs), 'is_open': is_open,
        }

    def liq_end(self, c, exchange, symbol, candle):
        from jesse.store import store
        pre = self.pre
        self.pre = None
        if pre is None:
            return
        p = store.positions.storage.get(f'{exchange}-{symbol}')
        ex = store.exchanges.storage[exchange]
        reg = c.scratch['registry']
        fresh_all = [r for r in list(reg.recs.values())[pre['norders']:] if r.symbol == symbol]
        created = len(fresh_all)
        n1 = int(store.app.total_liquidations)
        tag = f"fast={int(self.spec['fast'])}"
        if pre['eligible']:
            side = 'long' if pre['q0'] > 0 else 'short'
            bank = pre['e0'] * (1 - 1 / self.L) if pre['q0'] > 0 else pre['e0'] * (1 + 1 / self.L)
            if float(p.qty) != 0:
                self.v(c, 'not-liquidated', f'C09|position-survives-minute-containing-liquidation-price|{side}|{tag}',
                       {'liq': pre['liq'], 'range': [pre['lo'], pre['hi']], 'qty': float(p.qty)})
                return
            if n1 != pre['n0'] + 1:
                self.v(c, 'counter', f'C09|liquidation-counter-delta={n1 - pre["n0"]}', {})
            mk = [r for r in fresh_all if r.type == 'MARKET' and r.in_liq]
            if len(mk) != 1:
                self.v(c, 'liq-order', f'C09|liquidation-created-{len(mk)}-market-orders', {'created': created})
            else:
                r = mk[0]
                closing = 'sell' if pre['q0'] > 0 else 'buy'
                if not (r.reduce_only and r.side == closing and r.order.status == EXECUTED):
                    self.v(c, 'liq-order', 'C09|liquidation-order-not-an-executed-reduce-only-closing-order',
                           {'ro': r.reduce_only, 'side': r.side, 'status': r.order.status})
                if not C.close(abs(r.qty), abs(pre['q0']), 1e-12, 0):
                    self.v(c, 'liq-order', 'C09|liquidation-order-size-differs-from-position', {'qty': r.qty, 'pos': pre['q0']})
                if not C.close(r.price, bank, 1e-12, 0):
                    at_liq = C.close(r.price, pre['liq'], 1e-12, 0)
                    self.v(c, 'liq-price', f'C09|liquidation-fill-not-at-bankruptcy-price|at-liquidation-price={int(at_liq)}|{side}',
                           {'fill': r.price, 'bankruptcy': bank, 'liq': pre['liq']})
            for r in pre['resting']:
                if r.order.status != CANCELED:
                    self.v(c, 'resting-survive', f'C09|resting-order-not-cancelled-by-liquidation|status={r.order.status}', {'id': r.id})
                    break
            want_dw = -pre['e0'] * abs(pre['q0']) / self.L - self.f * abs(pre['q0']) * bank
            dw = float(ex.wallet_balance) - pre['W0']
            # (the change is read off two wallet values: their own floating-point resolution bounds what can be seen -
            # a wallet of 3e8 next to a position worth 30 resolves 6e-8)
            w_res = 8 * 2.220446049250313e-16 * max(abs(pre['W0']), abs(float(ex.wallet_balance)))
            if not C.close(dw, want_dw, 1e-9, 1e-9 * abs(pre['e0'] * pre['q0']) + w_res):
                self.v(c, 'loss', f'C09|liquidation-loss-differs-from-initial-margin-plus-fee|{side}',
                       {'wallet_change': dw, 'want': want_dw, 'wallet_before': pre['W0'], 'wallet_after': float(ex.wallet_balance),
                        'entry': pre['e0'], 'qty': pre['q0'], 'bankruptcy': bank, 'leverage': self.L, 'fee_rate': self.f})
            c.count('c09_liquidations_checked')
        else:
            if created != 0 or n1 != pre['n0'] or float(p.qty) != pre['q0']:
                why = 'not-isolated' if not self.isolated else ('closed' if not pre['is_open'] else 'price-not-in-range')
                self.v(c, 'spurious', f'C09|force-close-without-cause|{why}|{tag}',
                       {'created': created, 'counter': [pre['n0'], n1], 'qty': [pre['q0'], float(p.qty)],
                        'liq': pre['liq'], 'range': [pre['lo'], pre['hi']]})

    def finish(self, c):
        from jesse.store import store
        if not self.isolated:
            reg = c.scratch['registry']
            if store.app.total_liquidations != 0 or any(r.in_liq for r in reg.recs.values()):
                self.v(c, 'spurious', 'C09|liquidation-in-cross-or-spot-session', {'n': store.app.total_liquidations})


# ===================================================================================== C10
def route_type(side, p, ref, reduce_only, pos_type=None):
    """the stated routing rule; returns a set of acceptable types"""
    x = abs(1 - p / ref)
    near = x <= BAND
    edge = abs(x - BAND) <= 1e-12
    if reduce_only:
        if pos_type == 'long':
            far = 'LIMIT' if p > ref else 'STOP'
        else:
            far = 'LIMIT' if p < ref else 'STOP'
    else:
        if side == 'buy':
            far = 'STOP' if p > ref else 'LIMIT'
        else:
            far = 'STOP' if p < ref else 'LIMIT'
    if edge:
        return {'MARKET', far}
    return {'MARKET'} if near else {far}


class RoutingMonitor:
    def __init__(self, props=('C10',)):
        self.props = props

    def v(self, c, clause, fp, detail):
        if 'C10' in self.props:
            c.violate('C10', clause, fp, detail)

    def session_begin(self, c, spec, full_candles):
        self.ex = spec['exchange']
        self.spec_type = spec['type']
        self.strats = {}
        self.entry_frames = []
        self.reduce_frames = []
        self.sce = {}
        self.step_begin = {}
        self.flipped = set()

    # ---- entries
    def entries_begin(self, c, strat, side):
        rows = strat._buy if side == 'buy' else strat._sell
        reg = c.scratch['registry']
        self.entry_frames.append({'strat': strat, 'side': side, 'rows': [(float(r[0]), float(r[1])) for r in rows],
                                  'ref': float(strat.price), 'n0': len(reg.recs), 'cur': float(strat.position.current_price)})

    def entries_end(self, c, strat, side):
        fr = self.entry_frames.pop()
        reg = c.scratch['registry']
        new = list(reg.recs.values())[fr['n0']:]
        new = [r for r in new if r.symbol == strat.symbol]
        c.count('c10_entry_submissions')
        if len(new) != len(fr['rows']):
            if c.scratch.get('last_rejection_seq') == c.seq:
                return
            self.v(c, 'entry-count', f'C10|entry-rows={min(len(fr["rows"]), 4)}-orders={min(len(new), 4)}', {'rows': fr['rows']})
            return
        if fr['ref'] != fr['cur']:
            self.v(c, 'stale-reference', 'C10|entry-routed-against-a-price-that-is-not-the-current-price',
                   {'reference_used': fr['ref'], 'current_price': fr['cur'], 'rows': fr['rows']})
        for (q, p), r in zip(fr['rows'], new):
            want = route_type(side, p, fr['ref'], False)
            c.count('c10_entry_' + r.type.lower())
            if abs(abs(1 - p / fr['ref']) - BAND) <= 1e-9:
                c.count('c10_rows_at_band_edge')
            bad = None
            if r.type not in want:
                bad = f'type={r.type}-want={"/".join(sorted(want))}'
            elif r.side != side:
                bad = 'side'
            elif r.reduce_only:
                bad = 'reduce-only-entry'
            elif abs(r.qty) != abs(q):
                bad = 'qty'
            elif r.type == 'MARKET' and r.price != fr['cur']:
                bad = 'market-price-not-current'
            elif r.type != 'MARKET' and r.price != p:
                bad = 'price'
            if bad:
                self.v(c, 'entry-routing', f'C10|entry|{side}|{bad}', {'row': [q, p], 'ref': fr['ref'],
                                                                        'order': [r.type, r.side, r.qty, r.price, r.reduce_only]})

    # ---- exits
    def reduce_begin(self, c, broker, qty, price, current_price):
        reg = c.scratch['registry']
        # "type depends only on p relative to the CURRENT price": the reference the framework routes against must be
        # the price of this moment (the fill price inside a fill hook), read here from the candle store through the
        # position - not a value the strategy object remembered from an earlier moment
        try:
            now = broker.position.current_price
        except Exception:
            now = None
        if now is not None and not reg.in_liq:
            c.count('c10_reference_price_checks')
            if float(current_price) != float(now):
                self.v(c, 'stale-reference', f"C10|exit-routed-against-a-price-that-is-not-the-current-price|in-fill={int(reg.in_match is not None)}",
                       {'reference_used': float(current_price), 'current_price': float(now), 'request': [float(qty), float(price)]})
        self.reduce_frames.append({'n0': len(reg.recs), 'pos_type': broker.position.type, 'sym': broker.symbol})

    def reduce_end(self, c, broker, qty, price, current_price, order):
        fr = self.reduce_frames.pop()
        if order is None:
            return    # raised (closed position, rejection...): not a routing matter
        reg = c.scratch['registry']
        new = [r for r in list(reg.recs.values())[fr['n0']:] if r.symbol == fr['sym']]
        c.count('c10_exit_submissions')
        if len(new) != 1:
            self.v(c, 'exit-count', f'C10|one-exit-request-made-{len(new)}-orders', {})
            return
        r = new[0]
        pt = fr['pos_type']
        want = route_type(None, float(price), float(current_price), True, pt)
        closing = 'sell' if pt == 'long' else 'buy'
        c.count('c10_exit_' + r.type.lower())
        if abs(abs(1 - float(price) / float(current_price)) - BAND) <= 1e-9:
            c.count('c10_rows_at_band_edge')
        bad = None
        if r.type not in want:
            bad = f'type={r.type}-want={"/".join(sorted(want))}'
        elif r.side != closing:
            bad = 'side'
        elif not r.reduce_only:
            bad = 'not-reduce-only'
        elif abs(r.qty) != abs(float(qty)):
            bad = 'qty'
        elif r.price != float(price):
            bad = 'price'
        if bad:
            self.v(c, 'exit-routing', f'C10|exit|{pt}|{bad}', {'request': [float(qty), float(price), float(current_price)],
                                                              'order': [r.type, r.side, r.qty, r.price, r.reduce_only]})

    def order_rejected(self, c, order, attrs, exc):
        c.scratch['last_rejection_seq'] = c.seq
        self.judge_rejected_exit(c, attrs, exc)

    def judge_rejected_exit(self, c, attrs, exc):
        """spot: a declared stop-loss / take-profit row REPLACES the resting orders of its kind.  If the rows of the
        latest declaration of that kind, together with the resting sells of the other kind that share the order type,
        fit into the base asset held, the exchange has no reason to refuse the row: a refusal while orders of the
        replaced declaration still rest means the order the strategy asked for was not submitted because of them."""
        if self.spec_type != 'spot' or type(exc).__name__ != 'InsufficientBalance':
            return
        if attrs.get('side') != 'sell' or attrs.get('type') not in ('STOP', 'LIMIT'):
            return
        sym = attrs.get('symbol')
        strat = self.strats.get(sym)
        if strat is None or not strat.position.is_open:
            return
        q, p = abs(float(attrs.get('qty'))), float(attrs.get('price'))
        kinds = [k for k in ('sl', 'tp') if any(abs(r[0]) == q and r[1] == p for r in (strat._decl.get(k) or []))]
        if len(kinds) != 1:
            return
        kind = kinds[0]
        via = 'stop-loss' if kind == 'sl' else 'take-profit'
        from jesse.store import store
        import jesse.helpers as jh
        held = float(store.exchanges.storage[self.ex].assets[jh.base_asset(sym)])
        reg = c.scratch['registry']
        from decimal import Decimal
        others = sum((Decimal(str(abs(r.qty))) for r in reg.active(sym) if r.order.status == ACTIVE and r.side == 'sell' and r.type == attrs.get('type')
                      and getattr(r.order, 'submitted_via', None) != via), Decimal(0))
        rows = sum((Decimal(str(abs(r[0]))) for r in strat._decl[kind]), Decimal(0))
        c.count('c10_rejected_exit_rows_judged')
        ex = store.exchanges.storage[self.ex]
        refused_total = float((ex.stop_orders_sum if attrs.get('type') == 'STOP' else ex.limit_orders_sum).get(sym, 0))
        # orders of the REPLACED declaration of this kind that still rest although a row of the new one is being
        # submitted (without any, a refusal on the boundary is the exchange's own rounding of its running totals:
        # its decimal helper rounds every intermediate total to a double - no verdict then)
        since = getattr(strat, '_decl_at', {}).get(kind)
        stale = [r for r in reg.active(sym) if r.order.status == ACTIVE and getattr(r.order, 'submitted_via', None) == via
                 and since is not None and r.seq < since]
        if not stale:
            c.count('c10_rejected_exit_without_stale_orders')
            return
        if float(others + rows) <= held:   # the exchange refuses a total only when it is greater than the holding
            others, rows = float(others), float(rows)
            self.v(c, 'declared-exit-rejected', f"C10|declared-{kind}-row-refused-although-the-declaration-fits-the-holding|type={attrs.get('type')}",
                   {'row': [q, p], 'declared': list(strat._decl[kind]), 'held': held, 'resting_of_other_kind': others,
                    'stale_orders_still_resting': [[r.type, r.qty, r.price] for r in stale][:4],
                    'total_refused_by_exchange': refused_total, 'exc': str(exc)[:200]})

    # ---- exits submitted by the framework when the position opens (rows declared in go_long/go_short)
    def order_exec_begin(self, c, order, before):
        if before == ACTIVE:
            self.fill_mark = getattr(self, 'fill_mark', {})
            self.fill_mark[order.symbol] = len(c.scratch['registry'].recs)
            st = self.strats.get(order.symbol)
            self.qty_before_fill = None if st is None else float(st.position.qty)

    def order_exec_end(self, c, order, before):
        # a position FLIP (a plain order bigger than what was left of the position): jesse reports it as a fresh open
        # and re-submits the previous direction's declared exits as plain market orders (C06's known finding and the
        # ping-pong hazard of 12.1); the declarations of such a session say nothing about C10 any more
        st = self.strats.get(order.symbol)
        q0 = getattr(self, 'qty_before_fill', None)
        if before == ACTIVE and st is not None and q0 is not None:
            q1 = float(st.position.qty)
            if q0 * q1 < 0 and order.symbol not in self.flipped:
                self.flipped.add(order.symbol)
                c.count('c10_symbols_with_a_flip_not_judged_further')

    def open_hook_entered(self, c, strat):
        q0 = getattr(self, 'qty_before_fill', None)
        if q0 is not None and q0 * float(strat.position.qty) < 0 and strat.symbol not in self.flipped:
            self.flipped.add(strat.symbol)     # "opened" by a flip: see order_exec_end
            c.count('c10_symbols_with_a_flip_not_judged_further')
        self.check_exits_at_open(c, strat)

    def check_exits_at_open(self, c, strat):
        if strat.symbol in self.flipped:
            return
        reg = c.scratch['registry']
        mark = getattr(self, 'fill_mark', {}).get(strat.symbol)
        if mark is None:
            return
        new = [r for r in list(reg.recs.values())[mark:] if r.symbol == strat.symbol]
        if not new:
            return
        pos = strat.position
        entry = pos.entry_price
        c.count('c10_open_time_exits_checked', len(new))
        for r in new:
            via = getattr(r.order, 'submitted_via', None)
            if via not in ('stop-loss', 'take-profit'):
                self.v(c, 'untagged-exit', f'C10|order-submitted-at-open-is-neither-stop-loss-nor-take-profit|type={r.type}|ro={int(r.reduce_only)}',
                       {'order': [r.type, r.side, r.qty, r.price, r.reduce_only]})
                continue
            if r.reduce_only:
                continue
            # a plain order is only what replaces a row that lies on the wrong side of the entry price
            kind = 'sl' if via == 'stop-loss' else 'tp'
            rows = [row for row in (strat._decl.get(kind) or []) if abs(row[0]) == abs(r.qty)]
            long_ = pos.type == 'long' or (pos.type == 'close' and r.side == 'sell')
            def wrong(pr):
                if kind == 'sl':
                    return pr >= entry if long_ else pr <= entry
                return pr <= entry if long_ else pr >= entry
            if entry is not None and rows and not any(wrong(pr) for _, pr in rows):
                self.v(c, 'exit-not-reduce-only', f'C10|declared-{kind}-row-on-its-proper-side-submitted-as-plain-{r.type}-order',
                       {'rows': rows, 'entry_price': float(entry), 'order': [r.type, r.side, r.qty, r.price]})


    # ---- should_cancel_entry
    def sce_answer(self, c, strat, ans):
        reg = c.scratch['registry']
        self.sce[strat._sim_route] = (ans, [r for r in reg.active(strat.symbol)], c.seq)
        c.count('c10_sce_yes' if ans else 'c10_sce_no')

    # ---- after every strategy step
    def hook(self, c, strat, hook, extra):
        self.strats[strat.symbol] = strat
        if hook == 'before':
            self.step_begin[strat._sim_route] = (c.seq, bool(strat.position.is_close))
        if hook != 'after':
            return
        reg = c.scratch['registry']
        sym = strat.symbol
        rec = self.sce.pop(strat._sim_route, None)
        sb = self.step_begin.pop(strat._sim_route, None)
        if rec is None and sb is not None and sb[1] and strat.position.is_close:
            # "entry orders still resting at a strategy step without an open position are all cancelled exactly when
            # should_cancel_entry() answers yes": the question has to be put whenever such orders exist - also for
            # entries a hook submitted through the broker, which no declaration of the strategy object mirrors
            old = [r for r in reg.active(sym) if r.order.status == ACTIVE and r.seq < sb[0] and not r.reduce_only and r.type != 'MARKET']
            if old:
                self.v(c, 'sce-not-asked', f'C10|resting-entry-at-a-step-without-position-but-should_cancel_entry-was-not-asked|type={old[0].type}',
                       {'orders': [[r.type, r.side, r.qty, r.price] for r in old][:4]})
        if rec is not None:
            ans, entries, _ = rec
            if ans:
                left = [r for r in entries if r.order.status == ACTIVE]
                if left:
                    self.v(c, 'entries-survive-cancel', f'C10|should_cancel_entry-yes-but-entry-still-active|type={left[0].type}',
                           {'ids': [r.id for r in left][:4]})
            else:
                gone = [r for r in entries if r.order.status == CANCELED]
                if gone:
                    self.v(c, 'entries-cancelled-anyway', 'C10|should_cancel_entry-no-but-entry-cancelled', {'ids': [r.id for r in gone][:4]})
        pos = strat.position
        if sym in self.flipped:
            return
        act = [r for r in reg.active(sym) if r.order.status == ACTIVE]
        if pos.is_close:
            bad = [r for r in act if r.reduce_only or getattr(r.order, 'submitted_via', None) is not None]
            if bad:
                self.v(c, 'exit-with-closed-position', f'C10|exit-order-active-with-closed-position|type={bad[0].type}|via={getattr(bad[0].order, "submitted_via", None)}',
                       {'ids': [r.id for r in bad][:4]})
            return
        c.count('c10_after_with_open_position')
        for kind, via in (('sl', 'stop-loss'), ('tp', 'take-profit')):
            orders = [r for r in act if getattr(r.order, 'submitted_via', None) == via]
            rows = list(strat._decl.get(kind) or [])
            used = [False] * len(rows)
            for r in orders:
                hit = None
                for i, (q, p) in enumerate(rows):
                    if used[i]:
                        continue
                    if abs(r.qty) == abs(q) and (r.price == p or r.type == 'MARKET'):
                        hit = i
                        break
                if hit is None:
                    self.v(c, 'stale-exit', f'C10|active-{kind}-order-matches-no-row-of-latest-declaration|type={r.type}',
                           {'order': [r.type, r.qty, r.price], 'declared': rows})
                    break
                used[hit] = True
            if orders:
                c.count('c10_exit_sets_checked')
            # every row of the latest declaration was turned into an order: it is still active, or it has been
            # executed since (rows are matched by quantity and price; market-routed rows by quantity)
            if rows and getattr(strat, '_decl_at', {}).get(kind) is not None and not c.scratch.get('last_rejection_seq'):
                since = strat._decl_at[kind]
                cands = [r for r in reg.by_symbol.get(sym, []) if getattr(r.order, 'submitted_via', None) == via
                         and r.order.status in (ACTIVE, EXECUTED) and r.seq >= since]
                taken = set()
                for (q, p) in rows:
                    hit = None
                    for r in cands:
                        if r.id in taken:
                            continue
                        if abs(r.qty) == abs(q) and (r.price == p or r.type == 'MARKET'):
                            hit = r
                            break
                    if hit is None:
                        self.v(c, 'declared-row-without-order', f'C10|declared-{kind}-row-has-no-order|rows={min(len(rows), 3)}',
                               {'row': [q, p], 'declared': rows, 'orders': [[r.type, r.qty, r.price, r.order.status] for r in cands][:6]})
                        break
                    taken.add(hit.id)
                c.count('c10_declarations_checked')


# ===================================================================================== C16
class EquityMonitor:
    """requires AccountMonitor (c.scratch['account']) before it"""

    def __init__(self, props=('C16',)):
        self.props = props

    def v(self, c, clause, fp, detail):
        if 'C16' in self.props:
            c.violate('C16', clause, fp, detail)

    def session_begin(self, c, spec, full_candles):
        self.spec = spec
        self.samples = []
        self.nroutes = len(spec['routes'])

    def daily(self, c, is_initial, val):
        acct = c.scratch.get('account')
        if acct is None or acct.ended:
            return
        want = acct.equity()
        n = len(self.samples)
        self.samples.append((val, want))
        c.count('c16_equity_samples')
        scale = max(abs(want), abs(self.spec['balance']))
        tag = f"type={self.spec['type']}|routes={self.nroutes}"
        if not is_initial:
            # a MARKET order is filled at the moment it is submitted (C02): a sample taken while one is still
            # queued is not the account equity of that moment (its fill and fee are missing)
            from jesse.store import store
            pend = [o for o in store.orders.to_execute if o.is_active]
            if pend:
                self.v(c, 'equity-sample', f'C16|equity-sampled-while-market-orders-are-pending|{tag}',
                       {'index': n, 'pending': [[o.type, o.side, float(o.qty)] for o in pend][:3]})
                return
        if is_initial:
            if val != self.spec['balance'] and not C.close(val, self.spec['balance']):
                self.v(c, 'first-sample', f'C16|first-equity-sample-not-starting-balance|{tag}', {'got': val, 'want': self.spec['balance']})
            return
        if val is None or abs(float(val) - want) > 1e-9 * max(1.0, scale):
            rest = {}
            if self.spec['type'] == 'spot':
                rest = {'reserved_quote': acct.m.reserved_quote(), 'free_quote': acct.m.quote}
            self.v(c, 'equity-sample', f'C16|equity-sample-differs-from-account-equity|{tag}',
                   {'index': n, 'got': val, 'want': want, **rest})

    def finished(self, c, res):
        from jesse.store import store
        db = list(store.app.daily_balance)
        n = self.spec['minutes']
        want_n = 1 + (n - 1) // 1440 + 1
        if len(db) != want_n:
            self.v(c, 'sample-count', f'C16|equity-samples={len(db)}-want={want_n}' if abs(len(db) - want_n) <= 2 else 'C16|equity-sample-count',
                   {'minutes': n, 'got': len(db), 'want': want_n})
        # "... and it ends at the final portfolio value": the last sample is the account equity once the session
        # has been wound up (positions force-closed at the end of the session, their exit fee paid)
        acct = c.scratch.get('account')
        if db and acct is not None and not acct.ended:
            want = acct.equity()
            scale = max(abs(want), abs(self.spec['balance']))
            c.count('c16_final_sample_checks')
            if abs(float(db[-1]) - want) > 1e-9 * max(1.0, scale):
                self.v(c, 'last-sample', f"C16|last-equity-sample-differs-from-final-portfolio-value|type={self.spec['type']}|fast={int(bool(self.spec.get('fast')))}",
                       {'got': float(db[-1]), 'want': want, 'samples': len(db)})
        m = (res or {}).get('metrics')
        trades = list(store.completed_trades.trades)
        if m is None:
            if trades:
                self.v(c, 'metrics-missing', 'C16|metrics-none-although-trades-closed', {'trades': len(trades)})
            return
        self.check_metrics(c, m, trades, db)

    def check_metrics(self, c, m, trades, db):
        c.count('c16_metric_sets_checked')
        if not trades:
            if m.get('total', 0) != 0:
                self.v(c, 'metrics', 'C16|metric|total-without-trades', {'total': m.get('total')})
            return
        pnl = [float(t.pnl) for t in trades]
        if any(x != x for x in pnl):
            # a malformed trade record (no entry side: the aftermath of a position flip, C06's known finding);
            # the identities over the PnL list are not defined for it
            c.count('c16_sessions_with_nan_trade')
            return
        fee = [float(t.fee) for t in trades]
        types = [t.type for t in trades]
        start = float(self.spec['balance'])
        wins = [x for x in pnl if x > 0]
        losses = [x for x in pnl if x < 0]
        total = len(pnl)
        ref = {}
        ref['total'] = total
        ref['total_winning_trades'] = len(wins)
        ref['total_losing_trades'] = len(losses)
        wr = len(wins) / (len(wins) + len(losses)) if wins else 0.0
        ref['win_rate'] = wr
        ref['net_profit'] = math.fsum(pnl)
        ref['gross_profit'] = math.fsum(wins)
        ref['gross_loss'] = math.fsum(losses)
        ref['net_profit_percentage'] = ref['net_profit'] / start * 100
        ref['longs_count'] = sum(1 for t in types if t == 'long')
        ref['shorts_count'] = sum(1 for t in types if t == 'short')
        ref['longs_percentage'] = ref['longs_count'] / total * 100
        ref['shorts_percentage'] = 100 - ref['longs_percentage']
        ref['fee'] = math.fsum(fee)
        ref['largest_winning_trade'] = max(wins) if wins else 0
        ref['largest_losing_trade'] = min(losses) if losses else 0
        aw = math.fsum(wins) / len(wins) if wins else float('nan')
        al = abs(math.fsum(losses) / len(losses)) if losses else float('nan')
        ref['average_win'] = aw
        ref['average_loss'] = al
        ref['expectancy'] = (0 if math.isnan(aw) else aw) * wr - (0 if math.isnan(al) else al) * (1 - wr)
        # streaks: longest runs of winning (pnl>0) / losing (pnl<0) trades
        ws = ls = cw = cl = 0
        for x in pnl:
            if x > 0:
                cw += 1
                cl = 0
            elif x < 0:
                cl += 1
                cw = 0
            else:
                cw = cl = 0
            ws = max(ws, cw)
            ls = max(ls, cl)
        ref['winning_streak'] = ws
        ref['losing_streak'] = ls
        scale = max(1.0, start, max(abs(x) for x in pnl))
        for k, want in ref.items():
            got = m.get(k)
            ok = True
            if got is None:
                ok = False
            elif isinstance(want, float) and math.isnan(want):
                ok = isinstance(got, float) and math.isnan(got)
            elif k in ('total', 'total_winning_trades', 'total_losing_trades', 'longs_count', 'shorts_count', 'winning_streak', 'losing_streak'):
                ok = int(got) == int(want)
            else:
                unit = scale if k not in ('win_rate', 'longs_percentage', 'shorts_percentage', 'net_profit_percentage') else 100.0
                ok = abs(float(got) - float(want)) <= 1e-9 * max(unit, abs(float(want)))
            if not ok:
                zero = any(x == 0 for x in pnl)
                self.v(c, 'metrics', f'C16|metric|{k}|zero-pnl-trades={int(zero)}', {'metric': k, 'got': got, 'want': want, 'n': total})
        # consistency identities stated in the property
        if m.get('total') is not None and int(m['total']) != int(m.get('total_winning_trades', 0)) + int(m.get('total_losing_trades', 0)) + sum(1 for x in pnl if x == 0):
            self.v(c, 'metrics', 'C16|identity|total=winners+losers+breakeven', {})
        self.check_ratios(c, m, db)

    def check_ratios(self, c, m, db):
        n = len(db)
        names = ('max_drawdown', 'annual_return', 'sharpe_ratio', 'sortino_ratio', 'calmar_ratio', 'omega_ratio')
        if n < 2:
            for k in names:
                g = m.get(k)
                if not (isinstance(g, float) and math.isnan(g)):
                    self.v(c, 'ratios', f'C16|ratio|{k}|not-nan-with-<2-samples', {'got': g})
            return
        b = np.array(db, dtype=float)
        if not np.all(np.isfinite(b)) or np.any(b[:-1] <= 0):
            # an equity sample at or below zero (a wiped-out account, e.g. leverage 125 in cross mode): daily returns
            # from that sample on are not defined, and neither are the ratios built on them - no verdict
            c.count('c16_non_positive_equity_sample_sessions')
            return
        r = b[1:] / b[:-1] - 1.0
        ref = {}
        prices = np.cumprod(1 + r)
        peak = np.maximum.accumulate(prices)
        mdd = float((prices / peak).min() - 1)
        ref['max_drawdown'] = mdd * 100
        years = (n - 1) / 365.0
        last = float(np.prod(1 + r))
        if years <= 0:
            cagr = 0.0
        elif last < 0:
            cagr = float('nan')
        else:
            with np.errstate(all='ignore'):
                cagr = float(np.float64(last) ** np.float64(1 / years) - 1)
        ref['annual_return'] = cagr * 100
        if len(r) >= 2:
            sd = float(np.std(r, ddof=1))
            ref['sharpe_ratio'] = float(np.mean(r)) / sd * math.sqrt(365) if sd != 0 else (float('nan') if np.mean(r) == 0 else math.copysign(float('inf'), np.mean(r)))
        else:
            ref['sharpe_ratio'] = float('nan')
        neg = r[r < 0]
        down = math.sqrt(float((neg ** 2).sum()) / len(r))
        if down == 0:
            ref['sortino_ratio'] = float('inf') if np.mean(r) > 0 else float('-inf')
        else:
            ref['sortino_ratio'] = float(np.mean(r)) / down * math.sqrt(365)
        ref['calmar_ratio'] = (cagr / abs(mdd) if mdd != 0 else 0.0) if not math.isnan(cagr) else float('nan')
        pos = float(r[r > 0].sum())
        ngs = float(-r[r < 0].sum())
        ref['omega_ratio'] = pos / ngs if ngs > 0 else float('nan')
        c.count('c16_ratio_sets_checked')
        if mdd > 0 or (m.get('max_drawdown') is not None and not math.isnan(float(m['max_drawdown'])) and float(m['max_drawdown']) > 1e-12):
            self.v(c, 'ratios', 'C16|ratio|max_drawdown-positive', {'got': m.get('max_drawdown')})
        for k, want in ref.items():
            if last <= 0 and k in ('annual_return', 'calmar_ratio'):
                c.count('c16_negative_equity_sessions')
                continue   # equity went to zero or below: growth rates are not defined
            got = m.get(k)
            if got is None:
                self.v(c, 'ratios', f'C16|ratio|{k}|missing', {})
                continue
            got = float(got)
            if math.isnan(want) or math.isinf(want):
                ok = (math.isnan(got) and math.isnan(want)) or got == want or (math.isnan(want) and math.isinf(got)) or (math.isinf(want) and math.isnan(got))
            else:
                ok = abs(got - want) <= 1e-7 * max(1.0, abs(want))
            if not ok:
                self.v(c, 'ratios', f'C16|ratio|{k}|samples={"2" if n == 2 else ("3" if n == 3 else ">3")}', {'got': got, 'want': want, 'n_samples': n})


# ===================================================================================== C19
def hp_ref_decode(decl, dna):
    """HpRef: min + (ord(g) - 40) * (max - min) / 79, round for ints; independent per gene"""
    out = {}
    for g, h in zip(dna, decl):
        v = h['min'] + (ord(g) - 40) * (h['max'] - h['min']) / 79
        if h['type'] == 'int':
            v = int(round(v))
        out[h['name']] = v
    return out


class HpMonitor:
    def __init__(self, props=('C19',)):
        self.props = props

    def v(self, c, clause, fp, detail):
        if 'C19' in self.props:
            c.violate('C19', clause, fp, detail)

    def session_begin(self, c, spec, full_candles):
        self.spec = spec
        self.expected = {}
        self.checked = set()
        explicit = spec.get('hyperparameters')
        for i, r in enumerate(spec['routes']):
            pr = r['program']
            decl = pr.get('hp_decl')
            dna = pr.get('dna')
            if explicit is not None:
                exp = ('explicit', dict(explicit))
            elif dna:
                exp = ('dna', hp_ref_decode(decl, dna))
            elif decl:
                exp = ('defaults', {d['name']: d['default'] for d in decl})
            else:
                exp = ('none', None)
            self.expected[i] = exp
            if dna and decl:
                self.check_decode(c, decl, dna)

    def check_decode(self, c, decl, dna):
        import jesse.helpers as jh
        try:
            got = jh.dna_to_hp([{'name': d['name'], 'type': int if d['type'] == 'int' else float, 'min': d['min'], 'max': d['max'],
                                 'default': d['default']} for d in decl], dna)
        except Exception as e:
            self.v(c, 'decode-raised', f'C19|decode-raised|{type(e).__name__}', {'dna': dna})
            return
        want = hp_ref_decode(decl, dna)
        for g, d in zip(dna, decl):
            c.count('c19_genes_decoded')
            x = got.get(d['name'])
            w = want[d['name']]
            bad = None
            if x is None:
                bad = 'missing'
            elif d['type'] == 'int' and not isinstance(x, (int, np.integer)):
                bad = 'int-param-not-int'
            elif not (d['min'] - 1e-9 <= x <= d['max'] + 1e-9):
                bad = 'out-of-range'
            elif g == '(' and not C.close(x, d['min'], 1e-12, 1e-12):
                bad = 'first-letter-not-min'
            elif g == 'w' and not C.close(x, d['max'], 1e-12, 1e-12):
                bad = 'last-letter-not-max'
            elif d['type'] == 'int' and int(x) != int(w) and abs(abs((d['min'] + (ord(g) - 40) * (d['max'] - d['min']) / 79) % 1) - 0.5) > 1e-9:
                bad = 'differs-from-reference'
            elif d['type'] == 'float' and not C.close(x, w, 1e-12, 1e-12):
                bad = 'differs-from-reference'
            if bad:
                self.v(c, 'decode', f'C19|decode|{bad}|{d["type"]}', {'gene': g, 'decl': d, 'got': x, 'want': w})

    def hook(self, c, strat, hook, extra):
        i = strat._sim_route
        mode, want = self.expected.get(i, ('none', None))
        got = strat.hp
        c.count('c19_hp_reads')
        c.count('c19_mode_' + mode)
        ok = True
        if want is None:
            ok = got is None or got == {}
        else:
            if got is None or set(got.keys()) != set(want.keys()):
                ok = False
            else:
                for k in want:
                    if isinstance(want[k], int) and not isinstance(want[k], bool):
                        if got[k] != want[k]:
                            ok = False
                    elif not C.close(got[k], want[k], 1e-12, 1e-12):
                        ok = False
        if not ok and (i, 'x') not in self.checked:
            self.checked.add((i, 'x'))
            other = [self.expected[j][1] for j in self.expected if j != i]
            leaked = got is not None and any(o is not None and got == o for o in other)
            self.v(c, 'exposure', f'C19|hp-exposed-differs|mode={mode}|route={min(i, 1)}|equals-other-routes-hp={int(leaked)}',
                   {'route': i, 'got': got, 'want': want, 'hook': hook})
