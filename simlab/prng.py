"""Keyed pseudo-random streams (DESIGN 3.3).

Everything random in a run is H(run_seed, purpose, key...) -> uniform; there is no shared
sequential generator, so one draw never disturbs another and two runs that differ in their
future are offered identical choices at identical (hook, time, ordinal) keys.
No Python hash(), no global state.
"""
import hashlib
import struct

_TWO64 = float(2 ** 64)


def _enc(x) -> bytes:
    if isinstance(x, bool):
        return b'b1' if x else b'b0'
    if isinstance(x, int):
        return b'i' + str(x).encode()
    if isinstance(x, float):
        return b'f' + struct.pack('>d', x)
    if isinstance(x, str):
        return b's' + x.encode()
    if isinstance(x, (tuple, list)):
        return b'(' + b','.join(_enc(y) for y in x) + b')'
    if x is None:
        return b'n'
    raise TypeError(f'unkeyable {type(x)}')


def H(*key) -> int:
    return int.from_bytes(hashlib.blake2b(_enc(key), digest_size=8).digest(), 'big')


def U(*key) -> float:
    """uniform in [0,1)"""
    return H(*key) / _TWO64


class Stream:
    """A keyed stream: Stream(seed, 'cfg').u('leverage') etc."""

    __slots__ = ('prefix',)

    def __init__(self, *prefix):
        self.prefix = tuple(prefix)

    def sub(self, *more) -> 'Stream':
        return Stream(*self.prefix, *more)

    def u(self, *key) -> float:
        return U(*self.prefix, *key)

    def bits(self, *key) -> int:
        return H(*self.prefix, *key)

    def randint(self, lo: int, hi: int, *key) -> int:
        """inclusive bounds"""
        return lo + H(*self.prefix, *key) % (hi - lo + 1)

    def choice(self, seq, *key):
        return seq[H(*self.prefix, *key) % len(seq)]

    def chance(self, p: float, *key) -> bool:
        return U(*self.prefix, *key) < p

    def wchoice(self, pairs, *key):
        """pairs: [(item, weight), ...]"""
        tot = sum(w for _, w in pairs)
        x = self.u(*key) * tot
        acc = 0.0
        for item, w in pairs:
            acc += w
            if x < acc:
                return item
        return pairs[-1][0]

    def subset(self, seq, p: float, *key):
        return [s for i, s in enumerate(seq) if U(*self.prefix, *key, i) < p]

    def shuffle(self, seq, *key):
        idx = sorted(range(len(seq)), key=lambda i: H(*self.prefix, *key, i))
        return [seq[i] for i in idx]


def run_seed(check_id: str, verif_seed: int, k: int) -> int:
    return H('run', check_id, int(verif_seed), int(k)) & ((1 << 62) - 1)
