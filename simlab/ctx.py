"""Run context: the one mutable object a run owns (trace, violations, counters, decisions)."""
import hashlib
import math


class Violation(Exception):
    """raised by oracles that want to abort the run at the first violation"""


class SimStepBudgetExceeded(Exception):
    pass


class InjectedFault(Exception):
    """an exception the fault plan raises from a strategy hook (a 'crash' of the session)"""


class Decider:
    """Decision table (DESIGN 3.4). Generation mode: draws from the keyed stream and records.
    Replay mode: answers from the recorded table; a missing entry means the default."""

    def __init__(self, stream, table=None):
        self.stream = stream
        self.replay = table is not None
        self.table = dict(table) if table is not None else {}
        self.used = {}

    @staticmethod
    def _k(key) -> str:
        return '|'.join(str(x) for x in key)

    def u(self, key, default=1.0) -> float:
        """uniform in [0,1); by convention large values mean 'do nothing', so default=1.0"""
        k = self._k(key)
        if self.replay:
            v = self.table.get(k, default)
        else:
            v = self.stream.u(*key)
        self.used[k] = v
        return v


class RunCtx:
    def __init__(self, spec, decider, monitors=()):
        self.spec = spec
        self.decider = decider
        self.monitors = list(monitors)
        self.trace = []          # list of tuples, first item = kind
        self.violations = []     # dicts
        self.counters = {}
        self.seq = 0
        self.horizon = {}        # symbol -> largest 1m timestamp handed to the store so far
        self.max_horizon = -1
        self.id_counter = 0
        self.now_ms = 1_600_000_000_000   # virtual wall clock
        self.in_session = False
        self.session_no = 0
        self.keep_trace = True
        self.abort_on_violation = False
        self.max_violations = 20
        self.scratch = {}

    # -- counters / probes
    def count(self, name, n=1):
        self.counters[name] = self.counters.get(name, 0) + n

    # -- trace
    def ev(self, kind, *payload):
        self.seq += 1
        if self.keep_trace:
            self.trace.append((kind, self.max_horizon) + payload)

    # -- violations
    def violate(self, prop, clause, fingerprint, detail=None, **extra):
        if len(self.violations) >= self.max_violations:
            return
        v = {
            'property': prop,
            'clause': clause,
            'fingerprint': fingerprint,
            'seq': self.seq,
            'horizon': self.max_horizon,
            'session': self.session_no,
            'detail': detail,
        }
        v.update(extra)
        self.violations.append(v)
        if self.abort_on_violation:
            raise Violation(f'{prop}:{clause}')

    def dispatch(self, name, *a):
        for m in self.monitors:
            f = getattr(m, name, None)
            if f is not None:
                f(self, *a)


CURRENT = None   # the active RunCtx of this process (one run per forked child)


def cur():
    return CURRENT


def set_current(ctx):
    global CURRENT
    CURRENT = ctx


def fnum(x):
    """canonical exact text for numbers in traces/digests"""
    if x is None:
        return 'None'
    try:
        xf = float(x)
    except (TypeError, ValueError):
        return repr(x)
    if math.isnan(xf):
        return 'nan'
    return repr(xf)


def digest_trace(trace) -> str:
    h = hashlib.blake2b(digest_size=12)
    for e in trace:
        h.update(repr(e).encode())
        h.update(b'\n')
    return h.hexdigest()


def close(a, b, rel=1e-9, abs_=1e-9) -> bool:
    if a is None or b is None:
        return a is b
    a = float(a)
    b = float(b)
    if math.isnan(a) or math.isnan(b):
        return math.isnan(a) and math.isnan(b)
    if a == b:
        return True
    return abs(a - b) <= max(abs_, rel * max(1.0, abs(a), abs(b)))
