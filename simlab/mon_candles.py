"""Monitors over the candle store: C07 (every timeframe = aggregation of 1m) and the in-session
half of C20 (strictly increasing timestamps for every timeframe).  Reference = the harness's own
copy of the input + plain-python aggregation (simlab.candles)."""
import numpy as np

from . import ctx as C
from . import candles as CG
from .session import TF_MIN


def _rows_equal(a, b):
    return a.shape == b.shape and bool(np.array_equal(a, b))


class CandleMonitor:
    """C07 + C20(b, in situ)"""

    def __init__(self, props=('C07', 'C20'), full_every=41):
        self.props = props
        self.full_every = full_every

    # ------------------------------------------------------------------ session lifecycle
    def session_begin(self, c, spec, full_candles):
        self.spec = spec
        self.ex = spec['exchange']
        self.fast = spec['fast']
        self.w = spec['warmup']
        self.inp = {s: a.copy() for s, a in full_candles.items()}
        # reference normalisation of the trading part (strict form: every minute i>=1)
        self.norm = {}
        for s, a in self.inp.items():
            n = a.copy()
            n[self.w:] = CG.normalised(a[self.w:])
            self.norm[s] = n
        self.t0 = {s: float(a[0, 0]) for s, a in self.inp.items()}
        self.pairs = []
        seen = set()
        for r in spec['routes'] + spec['data_routes']:
            k = (r['symbol'], r['timeframe'])
            if k not in seen:
                seen.add(k)
                self.pairs.append(k)
        for s in self.inp:
            if (s, '1m') not in seen:
                self.pairs.append((s, '1m'))
        self.chunk = int(np.gcd.reduce([TF_MIN[r['timeframe']] for r in spec['routes'] + spec['data_routes']]))
        self.in_match = None
        self.hook_no = 0
        self.fills_in_minute = 0
        self.in_liq = False

    def match_begin(self, c, kind, exchange, symbol, candle):
        self.in_match = (symbol, kind)
        self.fills_in_minute = 0
        # the segment of the minute's path that the next partial candle has to cover starts at the minute's open
        self.seg_open = float(np.asarray(candle)[1]) if kind == 'step' else None
        self.exec_stack = []

    def order_exec_begin(self, c, order, before):
        if self.in_match and self.in_match[1] == 'step' and before == 'ACTIVE' and order.symbol == self.in_match[0] \
                and self.seg_open is not None and order.price is not None:
            p = float(order.price)
            # (a fill exactly at the start of the segment publishes the whole remainder - the corner C08 states)
            self.exec_stack.append((order, p, self.seg_open, p == self.seg_open))

    def match_end(self, c, kind, exchange, symbol, candle):
        self.in_match = None

    def liq_begin(self, c, exchange, symbol, candle):
        self.in_liq = True

    def liq_end(self, c, exchange, symbol, candle):
        self.in_liq = False

    def order_exec_end(self, c, order, before):
        if self.in_match and before == 'ACTIVE':
            self.fills_in_minute += 1
        st = getattr(self, 'exec_stack', None)
        if st and st[-1][0] is order:
            st.pop()
            if not st:
                self.seg_open = float(order.price)

    # ------------------------------------------------------------------ C20 in situ
    def fed(self, c, cstate, exchange, symbol, timeframe):
        if 'C20' not in self.props:
            return
        try:
            arr = cstate.get_storage(exchange, symbol, timeframe)
            n = len(arr)
            if n >= 2:
                a = arr.array
                if not (a[n - 2, 0] < a[n - 1, 0]):
                    c.violate('C20', 'store-order', f'C20|insitu|not-increasing|tf={timeframe}',
                              {'symbol': symbol, 'last': [float(a[n - 2, 0]), float(a[n - 1, 0])]})
        except Exception as e:   # observation helpers never propagate
            c.count('c20_observer_error')

    # ------------------------------------------------------------------ C07
    def hook(self, c, strat, hook, extra):
        if 'C07' not in self.props:
            return
        self.hook_no += 1
        full = (hook in ('terminate', 'before_terminate')) or (self.hook_no % self.full_every == 0)
        self.check_all(c, strat, hook, full)

    def check_all(self, c, strat, hook, full):
        from jesse.store import store
        mid = self.in_match is not None
        one = {}
        for (sym, tf) in self.pairs:
            # ---- (a) 1m series
            if sym not in one:
                try:
                    one[sym] = np.array(store.candles.get_candles(self.ex, sym, '1m'), copy=True)
                except Exception as e:
                    c.violate('C07', 'read-1m-raised', f'C07|read-raised|1m|{type(e).__name__}',
                              {'hook': hook, 'symbol': sym, 'exc': repr(e)})
                    one[sym] = None
                    continue
                self.check_1m(c, sym, one[sym], hook, full, mid and self.in_match[0] == sym)
            s1 = one[sym]
            if s1 is None or tf == '1m':
                continue
            # ---- (b), (c) higher timeframe
            for reader in ('get_candles', 'current'):
                try:
                    if reader == 'get_candles':
                        arr = strat.get_candles(self.ex, sym, tf)
                    else:
                        arr = store.candles.get_current_candle(self.ex, sym, tf)
                except Exception as e:
                    c.count('c07_read_raised')
                    c.violate('C07', 'read-raised',
                              f'C07|read-raised|{reader}|{type(e).__name__}|fast={int(self.fast)}|warm={int(self.w > 0)}|n1m<tf={int(len(s1) < TF_MIN[tf])}',
                              {'hook': hook, 'symbol': sym, 'tf': tf, 'exc': repr(e), 'n1m': int(len(s1))})
                    continue
                if reader == 'get_candles':
                    self.check_tf(c, sym, tf, s1, np.asarray(arr), hook, full, mid)
                else:
                    self.check_current(c, sym, tf, s1, np.asarray(arr), hook, mid)

    def check_1m(self, c, sym, s1, hook, full, mid_this):
        n = len(s1)
        if n == 0:
            return
        inp = self.inp[sym]
        norm = self.norm[sym]
        if n > len(inp):
            c.violate('C07', '1m-too-many', 'C07|1m|more-rows-than-input', {'n': n, 'input': len(inp)})
            return
        lo = 0 if full else max(0, n - 3)
        hi = n
        if mid_this:
            hi = n - 1   # the last candle may be a partial of its minute
        if hi > lo:
            got = s1[lo:hi]
            if not _rows_equal(got, norm[lo:hi]):
                # strict form failed: find the first bad row and classify
                for i in range(lo, hi):
                    g = s1[i]
                    if np.array_equal(g, norm[i]):
                        continue
                    lenient = np.array_equal(g, inp[i])
                    tr_i = i - self.w
                    interior = self.fast and tr_i >= 1 and (tr_i % self.chunk) != 0
                    c.violate('C07', '1m-differs',
                              f'C07|1m-differs|fast={int(self.fast)}|equals-raw-input={int(lenient)}|warm={int(i < self.w)}',
                              {'hook': hook, 'symbol': sym, 'row': i, 'got': g.tolist(), 'want': norm[i].tolist(),
                               'input': inp[i].tolist()})
                    break
        if mid_this and n >= 1:
            # partial candle of the minute being matched: timestamp, range inside the minute's range
            g = s1[n - 1]
            w = norm[n - 1]
            ok = g[0] == w[0] and g[3] <= w[3] and g[4] >= w[4] and g[4] <= g[1] <= g[3] and g[4] <= g[2] <= g[3]
            if not ok and not np.array_equal(g, inp[n - 1]):
                c.violate('C07', '1m-partial-outside', f'C07|1m-partial|outside-minute|fast={int(self.fast)}',
                          {'hook': hook, 'symbol': sym, 'row': n - 1, 'got': g.tolist(), 'minute': w.tolist()})
            c.count('c07_mid_minute_reads')
            # inside a fill of the step simulator the forming minute shows the part of the path walked since the previous
            # fill: it starts where that one ended and ends AT the fill price - nothing the path has not reached yet
            st = getattr(self, 'exec_stack', None)
            if st and self.in_match and self.in_match[1] == 'step' and st[-1][0].symbol == sym and not self.in_liq:
                _, price, seg_open, at_start = st[-1]
                if not at_start:
                    c.count('c07_partial_at_fill_checks')
                    if float(g[2]) != price or float(g[1]) != seg_open:
                        c.violate('C07', '1m-partial-at-fill', f'C07|1m-partial|forming-minute-at-a-fill-is-not-the-path-walked-so-far|close-is-fill={int(float(g[2]) == price)}',
                                  {'hook': hook, 'symbol': sym, 'got': g.tolist(), 'fill_price': price, 'segment_open': seg_open, 'minute': w.tolist()})

    def _expected_windows(self, sym, tf, s1):
        m = TF_MIN[tf]
        n = len(s1)
        nwin = (n + m - 1) // m
        return m, n, nwin

    def check_tf(self, c, sym, tf, s1, arr, hook, full, mid):
        m, n, nwin = self._expected_windows(sym, tf, s1)
        if arr.ndim != 2 or (len(arr) and arr.shape[1] != 6):
            c.violate('C07', 'tf-shape', f'C07|tf-shape|{tf}', {'shape': list(arr.shape)})
            return
        if len(arr) != nwin:
            c.violate('C07', 'tf-count',
                      f'C07|tf-count|fast={int(self.fast)}|mid={int(mid)}|in_liq={int(self.in_liq)}|diff={max(-2, min(2, len(arr) - nwin))}',
                      {'hook': hook, 'symbol': sym, 'tf': tf, 'got': int(len(arr)), 'want': int(nwin), 'n1m': n})
            return
        lo = 0 if full else max(0, nwin - 2)
        for k in range(lo, nwin):
            win = s1[k * m:(k + 1) * m]
            want = CG.aggregate(win)
            got = arr[k]
            if not np.array_equal(got, want):
                forming = len(win) < m
                c.violate('C07', 'tf-differs',
                          f'C07|tf-differs|fast={int(self.fast)}|forming={int(forming)}|last={int(k == nwin - 1)}|mid={int(mid)}|in_liq={int(self.in_liq)}|fills>=2={int(self.fills_in_minute >= 2)}',
                          {'hook': hook, 'symbol': sym, 'tf': tf, 'window': k, 'got': got.tolist(), 'want': want.tolist(),
                           'n1m': n, 'fills_in_minute': self.fills_in_minute})
                return
        c.count('c07_tf_reads')
        if n % m != 0:
            c.count('c07_forming_reads')

    def check_current(self, c, sym, tf, s1, got, hook, mid):
        m, n, nwin = self._expected_windows(sym, tf, s1)
        if nwin == 0:
            return
        win = s1[(nwin - 1) * m: nwin * m]
        want = CG.aggregate(win)
        if got.shape != (6,) or not np.array_equal(got, want):
            c.violate('C07', 'current-differs',
                      f'C07|current-differs|fast={int(self.fast)}|forming={int(len(win) < m)}|mid={int(mid)}|in_liq={int(self.in_liq)}|fills>=2={int(self.fills_in_minute >= 2)}',
                      {'hook': hook, 'symbol': sym, 'tf': tf, 'got': np.asarray(got).tolist(), 'want': want.tolist()})

    def finish(self, c):
        """after the run, before jesse resets the store: complete check from the outside"""
        if 'C07' not in self.props:
            return
        strats = c.scratch.get('strategies') or {}
        if strats:
            st = strats[sorted(strats)[0]]
            self.check_all(c, st, 'finish', True)
            # the candle-generation helper used by research code, on the same stored 1m candles (ride-along:
            # a pure function, compared in passing)
            try:
                from jesse.services.candle import _get_generated_candles
                from jesse.store import store as _st
                for (sym, tf) in self.pairs:
                    if tf == '1m':
                        continue
                    s1 = np.array(_st.candles.get_candles(self.ex, sym, '1m'), copy=True)
                    m = TF_MIN[tf]
                    nfull = len(s1) // m
                    if nfull == 0:
                        continue
                    got = np.asarray(_get_generated_candles(tf, s1))
                    want = np.array([CG.aggregate(s1[k * m:(k + 1) * m]) for k in range(nfull)])
                    c.count('c07_helper_checks')
                    if got.shape != want.shape or not np.array_equal(got, want):
                        c.violate('C07', 'helper-differs', f'C07|generated-candles-helper-differs|tf={tf}',
                                  {'symbol': sym, 'tf': tf, 'got_shape': list(got.shape), 'want_shape': list(want.shape)})
            except Exception as e:
                c.violate('C07', 'helper-raised', f'C07|generated-candles-helper-raised|{type(e).__name__}', {'exc': repr(e)})
            # after the run every 1m candle of the input must be there
            from jesse.store import store
            for sym in self.inp:
                n = len(store.candles.get_storage(self.ex, sym, '1m'))
                if n != len(self.inp[sym]):
                    c.violate('C07', '1m-count-final', f'C07|1m-count-final|fast={int(self.fast)}',
                              {'symbol': sym, 'got': n, 'want': len(self.inp[sym])})
