"""Regenerate /verif/MANIFEST.json from the check modules that exist (python -m simlab.manifest)."""
import importlib
import json
import os
import sys

VERIF = os.path.dirname(os.path.dirname(os.path.abspath(__file__)))

NOT_APPLICABLE = {
    'C13': 'pure function of one candle array compared on prefixes: no clock, schedule, fault, party or history for a '
           'simulator to control; deterministic simulation with fault injection does not apply (DESIGN 5/C13)',
    'C14': 'relation between two calls of a pure indicator function on one input; nothing to schedule or fault (DESIGN 5/C14)',
    'C15': 'differential testing of pure numeric kernels against textbook formulas; nothing to schedule or fault (DESIGN 5/C15)',
    'C17': 'pure sizing/rounding helpers over a continuous input space; no schedule, time, fault or history (DESIGN 5/C17)',
}

ALL = [f'C{i:02d}' for i in range(1, 21)]
PY = '/venv/bin/python'


def main():
    sys.path.insert(0, VERIF)
    checks = []
    na = []
    meta = json.load(open(os.path.join(VERIF, 'simlab', 'manifest_meta.json')))
    for pid in ALL:
        if pid in NOT_APPLICABLE:
            na.append({'property_id': pid, 'reason': NOT_APPLICABLE[pid]})
            continue
        path = os.path.join(VERIF, 'checks', f'{pid}.py')
        m = meta.get(pid)
        if not os.path.exists(path) or not m:
            na.append({'property_id': pid, 'reason': 'claimed in DESIGN.md but its check is not built yet in this commit'})
            continue
        checks.append({
            'property_id': pid,
            'quick_cmd': f'{PY} -m simlab.check {pid} --tier quick',
            'thorough_cmd': f'{PY} -m simlab.check {pid} --tier thorough',
            'evidence_file': f'/verif/evidence/{pid}.json',
            'replay_cmd_template': f'{PY} -m simlab.check {pid} --replay {{path}}',
            'engine': 'simlab',
            'level_claimed': {'category': 'exploration', 'text': m['text'], 'design_ref': m.get('design_ref', f'DESIGN.md 5/{pid}')},
            'level_note': m['note'],
            'technique': m['technique'],
        })
    man = {
        'version': 1,
        'setup_cmd': f'{PY} -m simlab.setup',
        'hooks': {
            'guard': 'JESSE_VERIF_SIM',
            'enable': 'no source hooks exist: every seam is a monkeypatch installed by simlab.seams at import time; '
                      'the guard name is reserved only',
            'baseline_off_cmd': 'cd /repo && /venv/bin/python -m pytest -ra -q -p no:cacheprovider --timeout=900 --continue-on-collection-errors',
            'source_commits': [],
            'add_only': True,
        },
        'engines': [{
            'name': 'simlab', 'path': '/verif/simlab',
            'serves_properties': [c['property_id'] for c in checks],
            'kind_free_text': 'deterministic simulation of jesse backtest sessions and operation histories in forked '
                              'children under monkeypatched id/clock/matching seams; keyed blake2b PRNG; seeded strategy '
                              'programs, candle histories, schedules and fault plans; reference models as oracles; '
                              'replay files + ddmin',
        }],
        'checks': checks,
        'not_applicable': na,
        'notes': 'All checks: cwd=/verif, honour VERIF_SEED, import jesse from /repo working tree (rebuild = import), '
                 'exit 0/1/2 = held / violation / harness error. Fixes to /repo are unguarded "fix:" commits listed in '
                 '/verif/known_findings.json.',
    }
    with open(os.path.join(VERIF, 'MANIFEST.json'), 'w') as f:
        json.dump(man, f, indent=1)
    print('MANIFEST.json:', len(checks), 'checks,', len(na), 'not applicable/not built')


if __name__ == '__main__':
    main()
