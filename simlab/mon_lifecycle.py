"""C05 - order lifecycle: one terminal transition, idempotent execute/cancel, active set = non-final
set, every executed order in exactly one trade.  Requires Registry before it."""
import numpy as np

from . import ctx as C

ACTIVE, EXECUTED, CANCELED = 'ACTIVE', 'EXECUTED', 'CANCELED'
FINAL = (EXECUTED, CANCELED)


def full_snapshot(c, ex_name):
    """everything execute()/cancel() on a final order must leave unchanged"""
    from jesse.store import store
    snap = []
    ex = store.exchanges.storage.get(ex_name)
    if ex is not None:
        snap.append(('assets', tuple(sorted((k, C.fnum(v)) for k, v in ex.assets.items()))))
        snap.append(('avail_assets', tuple(sorted((k, C.fnum(v)) for k, v in ex.available_assets.items()))))
        if ex.type == 'futures':
            for k in sorted(ex.buy_orders):
                snap.append(('buy_tab', k, ex.buy_orders[k][:].tobytes()))
                snap.append(('sell_tab', k, ex.sell_orders[k][:].tobytes()))
            snap.append(('avail', C.fnum(ex.available_margin)))
        else:
            snap.append(('stop_sum', tuple(sorted((k, C.fnum(v)) for k, v in ex.stop_orders_sum.items()))))
            snap.append(('limit_sum', tuple(sorted((k, C.fnum(v)) for k, v in ex.limit_orders_sum.items()))))
    for k in sorted(store.positions.storage):
        p = store.positions.storage[k]
        snap.append(('pos', k, C.fnum(p.qty), C.fnum(p.entry_price), C.fnum(p.previous_qty), p.opened_at, p.closed_at))
    ct = store.completed_trades
    snap.append(('ntrades', len(ct.trades)))
    for t in ct.trades[-3:]:
        snap.append(('trade', str(t.id), tuple(str(o.id) for o in t.orders), len(t.buy_orders), len(t.sell_orders)))
    for k in sorted(ct.tempt_trades):
        t = ct.tempt_trades[k]
        snap.append(('temp', k, tuple(str(o.id) for o in t.orders), t.buy_orders[:].tobytes(), t.sell_orders[:].tobytes(),
                     t.opened_at))
    snap.append(('hooks', c.counters.get('hooks', 0)))
    snap.append(('liq', store.app.total_liquidations))
    reg = c.scratch['registry']
    snap.append(('statuses', tuple((r.id, r.order.status) for r in reg.recs.values())))
    snap.append(('to_execute', tuple(str(o.id) for o in store.orders.to_execute)))
    return snap


class LifecycleMonitor:
    def __init__(self, props=('C05',)):
        self.props = props

    def session_begin(self, c, spec, full_candles):
        self.ex = spec['exchange']
        self.symbols = [r['symbol'] for r in spec['routes']]
        self.stack = []

    def v(self, c, clause, fp, detail):
        if 'C05' in self.props:
            c.violate('C05', clause, fp, detail)

    # ------------------------------------------------------------------ transitions
    def _begin(self, c, order, before, call):
        reg = c.scratch['registry']
        r = reg.rec_of(order)
        frame = {'order': order, 'before': before, 'call': call, 'snap': None, 'rec': r}
        if r is None:
            c.count('c05_unregistered_order_call')
        else:
            if r.status != before:
                self.v(c, 'status-drift', f'C05|status-changed-outside-execute-cancel|model={r.status}|seen={before}',
                       {'id': r.id, 'call': call})
        if before in FINAL:
            frame['snap'] = full_snapshot(c, self.ex)
            c.count(f'c05_{call}_on_final')
        self.stack.append(frame)

    def _end(self, c, order, before, call):
        if not self.stack:
            return
        frame = self.stack.pop()
        after = order.status
        if before in FINAL:
            if after != before:
                self.v(c, 'final-changed', f'C05|final-order-changed-status|{before}->{after}|via={call}', {'id': str(order.id)})
            snap = full_snapshot(c, self.ex)
            if snap != frame['snap']:
                diff = [a[0] for a, b in zip(frame['snap'], snap) if a != b][:4]
                self.v(c, 'not-idempotent', f'C05|{call}-on-final-order-changed-state|was={before}|changed={",".join(diff)}',
                       {'id': str(order.id), 'changed': diff})
        elif before == ACTIVE:
            want = EXECUTED if call == 'execute' else CANCELED
            if after != want:
                self.v(c, 'bad-transition', f'C05|{call}-on-active-order-left-status|{after}', {'id': str(order.id)})

    def order_exec_begin(self, c, order, before):
        self._begin(c, order, before, 'execute')

    def order_exec_end(self, c, order, before):
        self._end(c, order, before, 'execute')

    def order_cancel_begin(self, c, order, before):
        self._begin(c, order, before, 'cancel')

    def order_cancel_end(self, c, order, before):
        self._end(c, order, before, 'cancel')

    # ------------------------------------------------------------------ duplicate-delivery faults
    def inject_duplicates(self, c, strat):
        reg = c.scratch['registry']
        finals = [r for r in reg.by_symbol.get(strat.symbol, []) if r.order.status in FINAL][-2:]
        for r in finals:
            c.count('fault_duplicate_execute')
            r.order.execute()
            c.count('fault_duplicate_cancel')
            r.order.cancel()

    # ------------------------------------------------------------------ synchronisation points
    def sync(self, c, where):
        from jesse.store import store
        reg = c.scratch['registry']
        for r in reg.recs.values():
            if r.order.status != r.status:
                self.v(c, 'status-drift', f'C05|status-changed-outside-execute-cancel|model={r.status}|seen={r.order.status}',
                       {'id': r.id, 'where': where})
                r.status = r.order.status
        for s in self.symbols:
            model = {id(r.order): r for r in reg.active(s)}
            lst = store.orders.get_active_orders(self.ex, s)
            seen = {}
            for o in lst:
                if o.is_active:
                    seen[id(o)] = o
            cnt = store.orders.count_active_orders(self.ex, s)
            lost = [model[k].id for k in model if k not in seen]
            ghost = [str(seen[k].id) for k in seen if k not in model]
            if lost:
                r0 = model[[k for k in model if k not in seen][0]]
                self.v(c, 'lost-order', f'C05|active-order-missing-from-active-list|type={r0.type}|ro={int(r0.reduce_only)}',
                       {'where': where, 'symbol': s, 'lost': lost[:5]})
            if ghost:
                self.v(c, 'ghost-order', 'C05|active-list-reports-unknown-or-final-order', {'where': where, 'ghost': ghost[:5]})
            if cnt != len(seen):
                self.v(c, 'count', 'C05|count_active_orders-differs-from-active-list', {'count': cnt, 'seen': len(seen)})
        c.count('c05_syncs')

    def pruned(self, c, ostate, exchange, symbol):
        """right after the framework pruned its active list: the orders it reports as active for the symbol
        must be exactly the non-final ones (a final order still listed is reported as active to strategies)"""
        if symbol not in self.symbols:
            return
        reg = c.scratch['registry']
        lst = ostate.get_active_orders(exchange, symbol)
        c.count('c05_prune_checks')
        finals = [o for o in lst if o.status in FINAL]
        if finals:
            self.v(c, 'final-still-listed', f'C05|final-order-still-in-active-list-after-pruning|status={finals[0].status}|n={min(len(finals), 3)}',
                   {'symbol': symbol, 'ids': [str(o.id) for o in finals][:4], 'list_len': len(lst)})
        model = {id(r.order) for r in reg.active(symbol)}
        if {id(o) for o in lst if o.status == ACTIVE} != model:
            self.v(c, 'lost-order', 'C05|active-list-after-pruning-differs-from-non-final-set', {'symbol': symbol})

    def hook(self, c, strat, hook, extra):
        if hook in ('before', 'after', 'terminate', 'update_position'):
            self.sync(c, hook)

    def match_end(self, c, kind, exchange, symbol, candle):
        self.sync(c, 'match-end')
        self.phase_seq = c.seq

    def market_flush_begin(self, c):
        """the simulators flush pending market orders right after the route loop, in which every symbol's
        active list is pruned: an order that was already final when the minute's matching ended must be gone"""
        from jesse.store import store
        ph = getattr(self, 'phase_seq', None)
        if ph is None:
            return
        reg = c.scratch['registry']
        for s in self.symbols:
            for o in store.orders.get_active_orders(self.ex, s):
                if o.status in FINAL:
                    r = reg.rec_of(o)
                    if r is not None and r.final_seq is not None and r.final_seq < ph:
                        self.v(c, 'final-still-listed', f'C05|final-order-not-pruned-by-the-end-of-the-step|status={o.status}|routes={min(len(self.symbols), 2)}',
                               {'symbol': s, 'id': r.id})
                        return
        c.count('c05_step_end_prune_checks')

    def op_end(self, c, op):
        self.sync(c, 'op-end')

    def finish(self, c):
        from jesse.store import store
        self.sync(c, 'finish')
        reg = c.scratch['registry']
        ct = store.completed_trades
        occurrences = {}
        for t in list(ct.trades) + list(ct.tempt_trades.values()):
            for o in t.orders:
                occurrences[id(o)] = occurrences.get(id(o), 0) + 1
        for r in reg.recs.values():
            if r.status == EXECUTED:
                n = occurrences.get(id(r.order), 0)
                if n != 1:
                    self.v(c, 'trade-membership', f'C05|executed-order-recorded-in-{min(n, 2)}-trades|type={r.type}|ro={int(r.reduce_only)}',
                           {'id': r.id, 'n': n})
        for r in reg.recs.values():
            if r.transitions > 1:
                self.v(c, 'two-transitions', 'C05|order-made-two-transitions', {'id': r.id})
