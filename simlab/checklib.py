"""Check definitions: what a check must provide to the CLI, and the common session-run check."""
import copy

import numpy as np

from . import ctx as C
from . import session as S
from . import runner as R
from .prng import run_seed, Stream


class BaseCheck:
    prop = '?'
    title = ''
    tiers = {'quick': 100, 'thorough': 1000}
    rule = ''
    assumptions = []
    real_components = []
    stub_components = []
    fault_kinds = []      # counter names that count *fired* faults / schedule perturbations
    probes = []           # counter names of reach probes
    level_text = ''

    # -- work list
    def args_for(self, tier, verif_seed, runs=None):
        n = runs if runs is not None else self.tiers[tier]
        out = [{'k': -1 - i, 'directed': i} for i in range(self.n_directed())]
        out += [{'k': k, 'seed': run_seed(self.prop, verif_seed, k)} for k in range(n)]
        return out

    def n_directed(self):
        return 0

    def run_one(self, arg):
        raise NotImplementedError

    def replay(self, payload):
        raise NotImplementedError

    def nontrivial(self, res) -> bool:
        return True

    def minimise(self, payload, test, violation, budget_s):
        return payload


class SessionCheck(BaseCheck):
    """one seed -> one session under the given monitors; violations of `prop` only"""

    def __init__(self, prop, profile, monitors, tiers, nontrivial=None, rule='', exceptions_are_violations=True,
                 directed=None, **kw):
        self.prop = prop
        self.profile = profile
        self.monitors = monitors
        self.tiers = tiers
        self._nontrivial = nontrivial
        self.rule = rule
        self.exc_viol = exceptions_are_violations
        self._directed = directed or []
        for k, v in kw.items():
            setattr(self, k, v)

    def n_directed(self):
        return len(self._directed)

    def profile_for(self, seed):
        pf = self.profile
        if callable(pf):
            return pf(Stream(seed, 'profile'))
        return pf

    def _finish(self, c, out, spec, fc):
        if out['status'] == 'exception' and self.exc_viol:
            c.violate(self.prop, 'session-aborted',
                      f"{self.prop}|session-aborted|{out.get('exc_type')}|{out.get('where')}|fast={int(spec['fast'])}",
                      {'exc': out.get('exc'), 'tb': out.get('tb')})
        if out['status'] == 'harness-exception':
            from .farm import HarnessError
            raise HarnessError('exception raised by harness code inside the session:\n' + str(out.get('tb')))
        if out['status'] == 'step-budget':
            c.violate(self.prop, 'step-budget', f"{self.prop}|step-budget|fast={int(spec['fast'])}", {'exc': out.get('exc')})
        res = R.session_result(c, out, spec, fc, self.prop)
        res['nontrivial'] = bool(self._nontrivial(res)) if self._nontrivial else True
        return res

    def run_one(self, arg):
        if 'directed' in arg:
            spec = self._directed[arg['directed']]()
            table = spec.pop('_decisions', None)
        else:
            spec = S.gen_spec(arg['seed'], self.profile_for(arg['seed']))
            table = None
        fc = S.build_candles(spec)
        c, out = R.execute_session(spec, fc, self.monitors(), table=table)
        res = self._finish(c, out, spec, fc)
        res['k'] = arg['k']
        if arg.get('want_sample'):
            res['sample'] = {'spec': R.jsonable(R.spec_summary(spec)), 'status': out['status'],
                             'first_decisions': dict(list(c.decider.used.items())[:12]),
                             'trace_head': R.jsonable([e for e in c.trace if e[0] in ('order_new', 'exec_end', 'cancel')][:12])}
        return res

    def replay(self, payload):
        spec = copy.deepcopy(payload['spec'])
        fc = {s: np.array(a, dtype=np.float64) for s, a in spec['candles'].items()}
        spec.pop('candles')
        for r in spec['routes']:
            ed = r['program'].get('exit_dist')
            if isinstance(ed, list):
                r['program']['exit_dist'] = tuple(ed)
            ra = r['program'].get('raise_at')
            if isinstance(ra, list):
                r['program']['raise_at'] = tuple(ra)
        c, out = R.execute_session(spec, fc, self.monitors(), table=payload.get('decisions', {}))
        return self._finish(c, out, spec, fc)

    def minimise(self, payload, test, violation, budget_s):
        from . import shrink
        sp = payload['spec']
        vm = None
        hz = violation.get('horizon')
        if hz is not None and hz >= 0:
            vm = int((hz - sp['start_ts']) // 60_000) + 1
            if vm < 1:
                vm = None
        return shrink.minimise_session(payload, test, violation['fingerprint'], vm, budget_s)
