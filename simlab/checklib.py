"""Check definitions: what a check must provide to the CLI, and the common session-run check."""
import copy

import numpy as np

from . import ctx as C
from . import session as S
from . import runner as R
from .prng import run_seed, Stream


class BaseCheck:
    prop = '?'
    title = ''
    tiers = {'quick': 100, 'thorough': 1000}
    rule = ''
    assumptions = []
    real_components = []
    stub_components = []
    fault_kinds = []      # counter names that count *fired* faults / schedule perturbations
    probes = []           # counter names of reach probes
    level_text = ''

    # -- work list
    def args_for(self, tier, verif_seed, runs=None):
        n = runs if runs is not None else self.tiers[tier]
        out = [{'k': -1 - i, 'directed': i} for i in range(self.n_directed())]
        out += [{'k': k, 'seed': run_seed(self.prop, verif_seed, k)} for k in range(n)]
        return out

    def n_directed(self):
        return 0

    def run_one(self, arg):
        raise NotImplementedError

    def replay(self, payload):
        raise NotImplementedError

    def nontrivial(self, res) -> bool:
        return True

    def minimise(self, payload, test, violation, budget_s):
        return payload


class SessionCheck(BaseCheck):
    """one seed -> one session under the given monitors; violations of `prop` only"""

    def __init__(self, prop, profile, monitors, tiers, nontrivial=None, rule='', exceptions_are_violations=True,
                 directed=None, **kw):
        self.prop = prop
        self.profile = profile
        self.monitors = monitors
        self.tiers = tiers
        self._nontrivial = nontrivial
        self.rule = rule
        self.exc_viol = exceptions_are_violations
        self._directed = directed or []
        for k, v in kw.items():
            setattr(self, k, v)

    def n_directed(self):
        return len(self._directed)

    def profile_for(self, seed):
        pf = self.profile
        if callable(pf):
            return pf(Stream(seed, 'profile'))
        return pf

    def _finish(self, c, out, spec, fc):
        if out['status'] == 'exception' and self.exc_viol:
            c.violate(self.prop, 'session-aborted',
                      f"{self.prop}|session-aborted|{out.get('exc_type')}|{out.get('where')}|fast={int(spec['fast'])}",
                      {'exc': out.get('exc'), 'tb': out.get('tb')})
        if out['status'] == 'harness-exception':
            from .farm import HarnessError
            raise HarnessError('exception raised by harness code inside the session:\n' + str(out.get('tb')))
        if out['status'] == 'step-budget':
            c.violate(self.prop, 'step-budget', f"{self.prop}|step-budget|fast={int(spec['fast'])}", {'exc': out.get('exc')})
        res = R.session_result(c, out, spec, fc, self.prop)
        res['nontrivial'] = bool(self._nontrivial(res)) if self._nontrivial else True
        return res

    def run_one(self, arg):
        if 'directed' in arg:
            spec = self._directed[arg['directed']]()
            table = spec.pop('_decisions', None)
        else:
            spec = S.gen_spec(arg['seed'], self.profile_for(arg['seed']))
            table = None
        fc = S.build_candles(spec)
        c, out = R.execute_session(spec, fc, self.monitors(), table=table)
        res = self._finish(c, out, spec, fc)
        res['k'] = arg['k']
        if arg.get('want_sample'):
            res['sample'] = {'spec': R.jsonable(R.spec_summary(spec)), 'status': out['status'],
                             'first_decisions': dict(list(c.decider.used.items())[:12]),
                             'trace_head': R.jsonable([e for e in c.trace if e[0] in ('order_new', 'exec_end', 'cancel')][:12])}
        return res

    def replay(self, payload):
        spec = copy.deepcopy(payload['spec'])
        fc = {s: np.array(a, dtype=np.float64) for s, a in spec['candles'].items()}
        spec.pop('candles')
        for r in spec['routes']:
            ed = r['program'].get('exit_dist')
            if isinstance(ed, list):
                r['program']['exit_dist'] = tuple(ed)
            ra = r['program'].get('raise_at')
            if isinstance(ra, list):
                r['program']['raise_at'] = tuple(ra)
        c, out = R.execute_session(spec, fc, self.monitors(), table=payload.get('decisions', {}))
        return self._finish(c, out, spec, fc)

    def minimise(self, payload, test, violation, budget_s):
        from . import shrink
        sp = payload['spec']
        vm = None
        hz = violation.get('horizon')
        if hz is not None and hz >= 0:
            vm = int((hz - sp['start_ts']) // 60_000) + 1
            if vm < 1:
                vm = None
        return shrink.minimise_session(payload, test, violation['fingerprint'], vm, budget_s)


class MixedCheck(SessionCheck):
    """operation runs (seeded scheduler instead of the matching engine) + session runs, same monitors"""

    def __init__(self, *a, ops_profile=None, ops_tiers=None, ops_nontrivial=None, **kw):
        super().__init__(*a, **kw)
        self.ops_profile = ops_profile or {}
        self.ops_tiers = ops_tiers or {'quick': 0, 'thorough': 0}
        self._ops_nontrivial = ops_nontrivial

    def args_for(self, tier, verif_seed, runs=None):
        out = super().args_for(tier, verif_seed, runs)
        n_ops = self.ops_tiers[tier] if runs is None else runs
        base = 10_000_000
        out += [{'k': base + k, 'seed': run_seed(self.prop + '/ops', verif_seed, k), 'mode': 'ops'} for k in range(n_ops)]
        return out

    def ops_profile_for(self, seed):
        pf = self.ops_profile
        if callable(pf):
            return pf(Stream(seed, 'oprofile'))
        return pf

    def _ops_result(self, c, m, status, spec):
        from . import opmachine as OM
        if status == 'exception':
            info = c.scratch.get('op_exception') or {}
            tb = info.get('tb', '')
            where = '?'
            for line in tb.splitlines():
                if 'File "' in line and '/jesse/' in line and '/simlab/' not in line:
                    where = line.strip().rsplit('/', 1)[-1].split('"')[0] + ':' + line.strip().rsplit(' in ', 1)[-1]
            c.violate(self.prop, 'operation-raised',
                      f"{self.prop}|operation-raised|{info.get('type')}|{where}|op={(info.get('op') or {}).get('op')}",
                      {'exc': info.get('exc'), 'tb': tb, 'op': info.get('op')})
        vs = [v for v in c.violations if v['property'] == self.prop]
        res = {
            'seed': spec['seed'], 'status': status, 'violations': R.jsonable(vs),
            'other_props': sorted({v['property'] for v in c.violations if v['property'] != self.prop}),
            'counters': dict(c.counters), 'minutes': 0, 'ops': len(m.done_ops),
            'sig': R.trace_signature(c.trace) + '/' + '.'.join(o['op'][:2] for o in m.done_ops)[:80],
            'digest': C.digest_trace(c.trace), 'events': len(c.trace),
        }
        res['nontrivial'] = bool(self._ops_nontrivial(res)) if self._ops_nontrivial else len(m.done_ops) >= 3
        if vs:
            sp = {k: v for k, v in spec.items()}
            res['replay'] = {'kind': 'ops', 'spec': R.jsonable(sp), 'ops': R.jsonable(m.done_ops)}
        return res

    def run_one(self, arg):
        if arg.get('mode') != 'ops':
            return super().run_one(arg)
        from . import opmachine as OM
        spec = OM.gen_op_spec(arg['seed'], self.ops_profile_for(arg['seed']))
        c, m, status = OM.execute_ops(spec, self.monitors())
        res = self._ops_result(c, m, status, spec)
        res['k'] = arg['k']
        if arg.get('want_sample'):
            res['sample'] = {'kind': 'ops', 'spec': {k: spec[k] for k in ('type', 'leverage', 'fee', 'balance', 'n_ops')},
                             'ops': R.jsonable(m.done_ops[:15]), 'status': status}
        return res

    def replay(self, payload):
        if payload.get('kind') != 'ops':
            return super().replay(payload)
        from . import opmachine as OM
        spec = copy.deepcopy(payload['spec'])
        for r in spec['routes']:
            ed = r['program'].get('exit_dist')
            if isinstance(ed, list):
                r['program']['exit_dist'] = tuple(ed)
        c, m, status = OM.execute_ops(spec, self.monitors(), ops=payload['ops'])
        return self._ops_result(c, m, status, spec)

    def minimise(self, payload, test, violation, budget_s):
        if payload.get('kind') != 'ops':
            return super().minimise(payload, test, violation, budget_s)
        import time
        from . import shrink
        fp = violation['fingerprint']
        deadline = time.monotonic() + budget_s

        def fails(ops):
            p = dict(payload)
            p['ops'] = ops
            try:
                r = test(p)
            except Exception:
                return False
            return any(v['fingerprint'] == fp for v in r.get('violations', []))
        ops = shrink.ddmin_list(payload['ops'], fails, deadline)
        out = dict(payload)
        out['ops'] = ops
        out['minimised'] = [f"ops {len(payload['ops'])}->{len(ops)}"]
        return out
