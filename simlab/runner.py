"""Generic single-session run executed inside a forked child: spec from seed (or from a replay
payload), monitors attached, outcome + violations + counters + signature returned."""
import hashlib
import json

import numpy as np

from . import ctx as C
from . import session as S
from .prng import Stream


def jsonable(x):
    if isinstance(x, dict):
        return {str(k): jsonable(v) for k, v in x.items()}
    if isinstance(x, (list, tuple)):
        return [jsonable(v) for v in x]
    if isinstance(x, np.ndarray):
        return x.tolist()
    if isinstance(x, (np.floating,)):
        return float(x)
    if isinstance(x, (np.integer,)):
        return int(x)
    if isinstance(x, (np.bool_,)):
        return bool(x)
    if isinstance(x, float):
        if x != x:
            return 'nan'
        if x in (float('inf'), float('-inf')):
            return 'inf' if x > 0 else '-inf'
        return x
    if isinstance(x, (str, int, bool)) or x is None:
        return x
    return repr(x)


def trace_signature(trace) -> str:
    """hash of the sequence of event kinds with multiplicities per minute (distinct-run measure)"""
    h = hashlib.blake2b(digest_size=10)
    last_hz = None
    cnt = {}
    for e in trace:
        hz = e[1]
        if hz != last_hz:
            if cnt:
                h.update(repr(sorted(cnt.items())).encode())
            cnt = {}
            last_hz = hz
        k = e[0] if e[0] != 'hook' else 'hook:' + str(e[3])
        cnt[k] = cnt.get(k, 0) + 1
    if cnt:
        h.update(repr(sorted(cnt.items())).encode())
    return h.hexdigest()


def spec_summary(spec):
    return {
        'type': spec['type'], 'leverage': spec['leverage'], 'mode': spec['mode'], 'fee': spec['fee'],
        'balance': spec['balance'], 'fast': spec['fast'], 'minutes': spec['minutes'], 'warmup': spec['warmup'],
        'routes': [(r['symbol'], r['timeframe']) for r in spec['routes']],
        'data_routes': [(r['symbol'], r['timeframe']) for r in spec['data_routes']],
        'route_order': spec.get('route_order'), 'feed_order': spec.get('feed_order'),
        'symbols': spec['symbols'],
        'program0': {k: v for k, v in spec['routes'][0]['program'].items() if k not in ('hp_decl',)},
    }


def make_replay(spec, full_candles, decider, extra=None):
    sp = dict(spec)
    sp['candles'] = {s: a.tolist() for s, a in full_candles.items()}
    payload = {'kind': 'session', 'spec': jsonable(sp), 'decisions': dict(decider.used)}
    if extra:
        payload.update(extra)
    return payload


def execute_session(spec, full_candles, monitors, table=None, keep_trace=True):
    """returns (ctx, outcome)"""
    dec = C.Decider(Stream(spec['seed'], 'dec'), table=table)
    c = C.RunCtx(spec, dec, monitors)
    c.keep_trace = keep_trace
    C.set_current(c)
    try:
        out = S.run_backtest(c, spec, full_candles)
    finally:
        C.set_current(None)
    return c, out


def session_result(c, out, spec, full_candles, prop, want_replay=True, extra_violation_check=None):
    vs = [v for v in c.violations if v['property'] == prop]
    others = [v for v in c.violations if v['property'] != prop]
    res = {
        'seed': spec['seed'],
        'status': out['status'],
        'exc': out.get('exc'),
        'where': out.get('where'),
        'violations': jsonable(vs),
        'other_props': sorted({v['property'] for v in others}),
        'counters': dict(c.counters),
        'minutes': spec['minutes'] * len(spec['symbols']),
        'sig': trace_signature(c.trace),
        'digest': C.digest_trace(c.trace),
        'events': len(c.trace),
    }
    if vs and want_replay:
        res['replay'] = make_replay(spec, full_candles, c.decider)
    return res
