"""C03 / C04 monitors: jesse's futures / spot account vs the reference account fed the same orders.
Works both in session runs and in operation runs (the seams are the same)."""
from . import ctx as C
from .models.accounts import MarginAccount, CashAccount

ACTIVE = 'ACTIVE'
TOL = 1e-9


def _close(a, b, scale=1.0):
    if a is None or b is None:
        return a is None and b is None
    a = float(a)
    b = float(b)
    return abs(a - b) <= TOL * max(1.0, abs(a), abs(b), scale)


class AccountMonitor:
    def __init__(self, props=('C03', 'C04')):
        self.props = props

    # ------------------------------------------------------------------ lifecycle
    def session_begin(self, c, spec, full_candles):
        self.spec = spec
        self.ex_name = spec['exchange']
        self.kind = spec['type']
        self.ended = False
        self.pred = None
        self.last_op = 'start'
        self.resynced = 0
        if self.kind == 'futures':
            self.m = MarginAccount(spec['balance'], spec['leverage'], spec['fee'])
        else:
            self.m = CashAccount(spec['balance'], spec['fee'])
        self.symbols = [r['symbol'] for r in spec['routes']]
        for s in self.symbols:
            self.m.sym(s)
        c.scratch['account'] = self

    def active_prop(self):
        return 'C03' if self.kind == 'futures' else 'C04'

    def v(self, c, clause, fp, detail):
        p = self.active_prop()
        if p in self.props:
            c.violate(p, clause, fp, detail)

    # ------------------------------------------------------------------ jesse state access
    def jx(self):
        from jesse.store import store
        return store.exchanges.storage.get(self.ex_name)

    def jpos(self, s):
        from jesse.store import store
        return store.positions.storage.get(f'{self.ex_name}-{s}')

    def marks(self):
        out = {}
        for s in self.symbols:
            p = self.jpos(s)
            out[s] = None if p is None or p.current_price is None else float(p.current_price)
        return out

    # ------------------------------------------------------------------ submissions
    def flush_pending(self, c, where):
        """a fill is applied to the model at exec_begin; jesse applies it inside execute().  Compare at
        the first event after it, before any nested operation touches the model, so that a deviation
        is attributed to that fill."""
        if getattr(self, 'pending_fill', False) and not self.ended:
            self.pending_fill = False
            self.compare(c, where)

    def order_cancel_begin(self, c, order, before):
        self.flush_pending(c, 'pre-cancel')

    def order_init_before(self, c, attrs):
        self.flush_pending(c, 'pre-submit')
        if self.ended:
            return
        s = attrs['symbol']
        qty = float(attrs['qty'])
        price = float(attrs['price'])
        if self.kind == 'futures':
            if attrs.get('reduce_only'):
                self.pred = ('accept', None, None)
                return
            need = self.m.required(qty, price)
            have = self.m.available(self.marks())
            jhave = float(self.jx().available_margin)
            if not _close(have, jhave):
                # account already differs: report through compare(), decide the boundary with jesse's number
                self.compare(c, 'before-submit')
                have = jhave
            if need == have and have == jhave:
                # exactly at the limit, and the model's margin is bit-equal to jesse's: the stated rule
                # ("exceeds") accepts
                self.pred = ('accept', need, have)
                c.count('c03_exact_boundary_submissions')
            elif abs(need - have) <= 1e-9 * max(1.0, abs(need)):
                self.pred = ('boundary', need, have)
                c.count('c03_near_boundary_submissions')
            else:
                self.pred = ('reject' if need > have else 'accept', need, have)
        else:
            rej, need, have, where = self.m.would_reject(s, attrs['side'], attrs['type'], qty, price)
            self.pred = ('reject' if rej else 'accept', need, have)
            if where == 'exact':
                c.count('c04_exact_boundary_submissions')
            elif where == 'near':
                # closer than any bookkeeping error could be and not exactly equal: no verdict
                self.pred = ('boundary', need, have)
                c.count('c04_near_boundary_submissions')

    def order_rejected(self, c, order, attrs, exc):
        if self.ended:
            return
        name = type(exc).__name__
        want = 'InsufficientMargin' if self.kind == 'futures' else 'InsufficientBalance'
        pred = self.pred
        self.pred = None
        self.ended = True   # a rejected submission ends the sequence (jesse leaves spot balances dirty)
        c.count('rejections_seen')
        if name != want:
            return   # other rejections (OrderNotAllowed...) are not this property's business
        if pred and pred[0] == 'accept':
            self.v(c, 'unexpected-rejection',
                   f'{self.active_prop()}|rejected-although-affordable|side={attrs.get("side")}|type={attrs.get("type")}|ro={int(bool(attrs.get("reduce_only")))}',
                   {'need': pred[1], 'have': pred[2], 'attrs': {k: attrs[k] for k in ('symbol', 'side', 'type', 'qty', 'price', 'reduce_only')}})

    def order_init(self, c, order):
        if self.ended:
            return
        pred = self.pred
        self.pred = None
        if pred and pred[0] == 'reject':
            self.v(c, 'missed-rejection',
                   f'{self.active_prop()}|accepted-although-unaffordable|side={order.side}|type={order.type}|after-cancel={int(self.m_cancelled_sell(order))}',
                   {'need': pred[1], 'have': pred[2], 'order': [order.symbol, order.side, order.type, float(order.qty), float(order.price)]})
        if self.kind == 'futures':
            self.m.submit(str(order.id), order.symbol, float(order.qty), float(order.price), bool(order.reduce_only))
        else:
            self.m.submit(str(order.id), order.symbol, order.side, order.type, float(order.qty), float(order.price))
        self.last_op = 'submit'
        self.compare(c, 'submit')

    def m_cancelled_sell(self, order):
        return getattr(self, 'sell_cancels', 0) > 0 and order.side == 'sell'

    # ------------------------------------------------------------------ cancel / fill
    def order_cancel_end(self, c, order, before):
        if self.ended or before != ACTIVE:
            return
        self.m.cancel(str(order.id))
        if order.side == 'sell':
            self.sell_cancels = getattr(self, 'sell_cancels', 0) + 1
        self.last_op = 'cancel'
        self.compare(c, 'cancel')

    def order_exec_begin(self, c, order, before):
        self.flush_pending(c, 'pre-fill')
        if self.ended or before != ACTIVE:
            return
        self.pending_fill = True
        if self.kind == 'futures':
            info = self.m.fill(str(order.id), order.symbol, float(order.qty), float(order.price), bool(order.reduce_only))
            c.count('c03_fill_' + info['kind'])
            if info['oversize']:
                c.count('c03_oversize_fill')
        else:
            info = self.m.fill(str(order.id), order.symbol, order.side, order.type, float(order.qty), float(order.price))
            if info.get('clipped'):
                c.count('c04_sell_clipped_to_base')
        self.last_op = 'fill'

    def order_exec_end(self, c, order, before):
        if self.ended or before != ACTIVE:
            return
        self.pending_fill = False
        self.compare(c, 'fill-end')

    def hook(self, c, strat, hook, extra):
        if not self.ended:
            self.pending_fill = False
            self.compare(c, 'hook')

    def match_end(self, c, kind, exchange, symbol, candle):
        if not self.ended:
            self.compare(c, 'match-end')

    def finish(self, c):
        if not self.ended:
            self.compare(c, 'finish')

    # ------------------------------------------------------------------ comparison
    def fill_predicates(self):
        l = self.m.last
        if not l or self.last_op != 'fill':
            return f'after={self.last_op}'
        if self.kind == 'futures':
            return (f"after=fill|kind={l['kind']}|ro={int(l['reduce_only'])}|oversize={int(l['oversize'])}"
                    f"|same-dir-ro={int(l['same_dir_ro'])}|ro-on-closed={int(l['ro_on_closed'])}")
        return f"after=fill|side={l['side']}|kind={l['kind']}|clipped={int(l['clipped'])}"

    def compare(self, c, where):
        if self.kind == 'futures':
            self.compare_futures(c, where)
        else:
            self.compare_spot(c, where)

    def compare_futures(self, c, where):
        ex = self.jx()
        if ex is None:
            return
        m = self.m
        bad = None
        jw = float(ex.wallet_balance)
        scale = abs(self.spec['balance'])
        if not _close(m.W, jw, 0):
            bad = ('wallet', m.W, jw)
        marks = self.marks()
        if bad is None:
            for s in self.symbols:
                p = self.jpos(s)
                jq = float(p.qty)
                if not _close(m.q[s], jq):
                    bad = ('qty', m.q[s], jq)
                    break
                if m.q[s] != 0 and not _close(m.e[s], p.entry_price):
                    bad = ('entry', m.e[s], p.entry_price)
                    break
                notional = abs(m.q[s]) * max(abs(m.e[s] or 0.0), abs(marks[s] or 0.0))
                scale = max(scale, notional)
                if m.q[s] != 0 and marks[s] is not None and not _close(m.upnl(s, marks[s]), p.pnl, notional):
                    bad = ('pnl', m.upnl(s, marks[s]), p.pnl)
                    break
                want_type = 'long' if m.q[s] > 0 else ('short' if m.q[s] < 0 else 'close')
                if p.type != want_type:
                    bad = ('side', want_type, p.type)
                    break
        if bad is None:
            ja = float(ex.available_margin)
            ma = m.available(marks)
            if not _close(ma, ja, scale):
                bad = ('available_margin', ma, ja)
        c.count('c03_compares')
        if bad is not None:
            self.v(c, 'account-differs', f'C03|{bad[0]}|{self.fill_predicates()}',
                   {'where': where, 'field': bad[0], 'model': bad[1], 'jesse': bad[2], 'last_fill': m.last})
            self.resync_futures()

    def resync_futures(self):
        ex = self.jx()
        self.m.W = float(ex.wallet_balance)
        for s in self.symbols:
            p = self.jpos(s)
            self.m.q[s] = float(p.qty)
            self.m.e[s] = None if p.entry_price is None else float(p.entry_price)
        self.resynced += 1

    def compare_spot(self, c, where):
        from decimal import Decimal
        ex = self.jx()
        if ex is None:
            return
        m = self.m
        bad = None
        jq = float(ex.assets[ex.settlement_currency])
        if not _close(float(m.quote), jq):
            bad = ('quote', float(m.quote), jq)
        elif float(m.quote) != jq:
            # the balances are kept with the framework's decimal helpers, whose stated contract is exactness:
            # a value that is close but not equal is a drift (e.g. a plain float += somewhere)
            bad = ('quote-drift', float(m.quote), jq)
        if bad is None and jq < 0:
            bad = ('quote-negative', 0, jq)
        if bad is None:
            for s in self.symbols:
                base = s.split('-')[0]
                jb = float(ex.assets[base])
                if not _close(float(m.base[s]), jb, 0):
                    bad = ('base', float(m.base[s]), jb)
                    break
                if float(m.base[s]) != jb:
                    bad = ('base-drift', float(m.base[s]), jb)
                    break
                if jb < 0:
                    bad = ('base-negative', 0, jb)
                    break
                p = self.jpos(s)
                if not _close(float(p.qty), jb, 0):
                    bad = ('position-vs-base', jb, float(p.qty))
                    break
                if p.type == 'short':
                    bad = ('short-position', 0, float(p.qty))
                    break
        c.count('c04_compares')
        if bad is not None:
            self.v(c, 'account-differs', f'C04|{bad[0]}|{self.fill_predicates()}',
                   {'where': where, 'field': bad[0], 'model': bad[1], 'jesse': bad[2], 'last_fill': m.last})
            # resync
            m.quote = jq
            for s in self.symbols:
                m.base[s] = float(ex.assets[s.split('-')[0]])
            self.resynced += 1

    # ------------------------------------------------------------------ used by C16
    def equity(self):
        return self.m.equity(self.marks())
