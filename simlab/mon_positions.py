"""C06 - position events and the trade log are a faithful record of the fills.
PositionCycles turns the fill stream of a symbol into cycles; per fill the expected hook(s) and the
size after it; per cycle the expected trade record.  Requires Registry before it."""
from decimal import Decimal

from . import ctx as C

ACTIVE = 'ACTIVE'
POS_HOOKS = ('on_open_position', 'on_increased_position', 'on_reduced_position', 'on_close_position')
EXPECT = {'open': ['on_open_position'], 'increase': ['on_increased_position'], 'reduce': ['on_reduced_position'],
          'close': ['on_close_position'], 'flip': ['on_close_position', 'on_open_position']}


def D(x):
    return Decimal(str(x))


def dadd(a, b):
    return float(D(a) + D(b))


class PositionCycles:
    def __init__(self, props=('C06',)):
        self.props = props

    def session_begin(self, c, spec, full_candles):
        self.spec = spec
        self.ex = spec['exchange']
        self.kind = spec['type']
        self.fee = float(spec['fee'])
        self.symbols = [r['symbol'] for r in spec['routes']]
        self.q = {s: 0.0 for s in self.symbols}
        self.cycle = {s: None for s in self.symbols}
        self.frames = []
        self.closed_cycles = 0
        self.tainted = {s: False for s in self.symbols}   # after a flip the model of that symbol's trade is resynced
        self.start_wallet = float(spec['balance'])
        self.fills = 0
        self.saw_oversize = False
        self.saw_flip = False

    def v(self, c, clause, fp, detail):
        if 'C06' in self.props:
            c.violate('C06', clause, fp, detail)

    # ------------------------------------------------------------------ model step
    def classify(self, s, order):
        q0 = self.q[s]
        qty = float(order.qty)
        ro = bool(order.reduce_only)
        if self.kind == 'spot':
            if qty > 0:
                eff = qty * (1 - self.fee)
                gross = qty
            else:
                eff = -min(abs(qty), q0) if q0 > 0 else (qty if not ro else 0.0)
                gross = eff
        else:
            if ro:
                if q0 == 0 or q0 * qty > 0:
                    eff = 0.0
                else:
                    eff = (1 if qty > 0 else -1) * min(abs(qty), abs(q0))
            else:
                eff = qty
            gross = eff
        q1 = dadd(q0, eff)
        if eff == 0:
            kind = 'none'
        elif q0 == 0:
            kind = 'open'
        elif q0 * eff > 0:
            kind = 'increase'
        elif q1 == 0:
            kind = 'close'
        elif abs(eff) < abs(q0):
            kind = 'reduce'
        else:
            kind = 'flip'
        return kind, eff, gross, q0, q1

    def order_exec_begin(self, c, order, before):
        if before != ACTIVE or order.symbol not in self.q:
            return
        from jesse.store import store
        s = order.symbol
        kind, eff, gross, q0, q1 = self.classify(s, order)
        oversize = abs(float(order.qty)) > abs(q0) and q0 * float(order.qty) < 0 and kind in ('close',) and bool(order.reduce_only)
        fr = {'order': order, 'sym': s, 'kind': kind, 'eff': eff, 'gross': gross, 'q0': q0, 'q1': q1, 'hooks': [],
              'time': int(store.app.time), 'ntrades': len(store.completed_trades.trades), 'oversize': oversize}
        self.frames.append(fr)
        self.q[s] = q1
        self.fills += 1
        c.count('c06_fill_' + kind)
        if oversize:
            c.count('c06_oversize_close')
            self.saw_oversize = True
        # cycle bookkeeping
        cyc = self.cycle[s]
        price = float(order.price)
        if kind == 'open':
            self.cycle[s] = {'type': 'long' if eff > 0 else 'short', 'entry': [(abs(gross), price)], 'exit': [],
                             'orders': [str(order.id)], 'opened_at': fr['time']}
        elif kind == 'increase' and cyc:
            cyc['entry'].append((abs(gross), price))
            cyc['orders'].append(str(order.id))
        elif kind in ('reduce', 'close') and cyc:
            cyc['exit'].append((abs(eff), price))
            cyc['orders'].append(str(order.id))
            if kind == 'close':
                cyc['closed_at'] = fr['time']
                fr['closed_cycle'] = cyc
                self.cycle[s] = None
        elif kind == 'flip' and cyc:
            cyc['exit'].append((abs(q0), price))
            cyc['orders'].append(str(order.id))
            cyc['closed_at'] = fr['time']
            cyc['closed_by_flip'] = True
            fr['closed_cycle'] = cyc
            self.saw_flip = True
            self.cycle[s] = {'type': 'long' if q1 > 0 else 'short', 'entry': [(abs(q1), price)], 'exit': [],
                             'orders': [str(order.id)], 'opened_at': fr['time'], 'after_flip': True}
        elif kind == 'none' and cyc:
            cyc['orders'].append(str(order.id))

    def hook(self, c, strat, hook, extra):
        if hook not in POS_HOOKS:
            return
        s = strat.symbol
        for fr in reversed(self.frames):
            if fr['sym'] == s:
                fr['hooks'].append((hook, float(strat.position.qty), extra))
                return
        self.v(c, 'hook-without-fill', f'C06|position-hook-outside-any-fill|{hook}', {'symbol': s, 'hook': hook})

    def order_exec_end(self, c, order, before):
        if before != ACTIVE or not self.frames or self.frames[-1]['order'] is not order:
            return
        from jesse.store import store
        fr = self.frames.pop()
        s = fr['sym']
        kind = fr['kind']
        got = [h[0] for h in fr['hooks']]
        if kind == 'none':
            c.count('c06_fill_without_effect')
        else:
            want = EXPECT[kind]
            if got != want:
                self.v(c, 'hooks', f'C06|hooks-for-{kind}|got={"+".join(h.replace("on_", "").replace("_position", "") for h in got) or "none"}|ro={int(bool(order.reduce_only))}',
                       {'order': str(order.id), 'want': want, 'got': got, 'q0': fr['q0'], 'q1': fr['q1']})
            else:
                # the position size seen inside the hook is the size the fill implies
                hq = fr['hooks'][-1][1]
                if not C.close(hq, fr['q1'], 1e-9, 1e-9 * max(1.0, abs(fr['q0']))):
                    self.v(c, 'hook-size', f'C06|position-size-in-hook-differs|{kind}', {'want': fr['q1'], 'got': hq})
                # and it is reported with the order that caused it
                if fr['hooks'][-1][2] != str(order.id):
                    self.v(c, 'hook-order', f'C06|hook-reported-with-another-order|{kind}', {'want': str(order.id), 'got': fr['hooks'][-1][2]})
        # trade record
        ntr = len(store.completed_trades.trades)
        cyc = fr.get('closed_cycle')
        if cyc is None:
            if ntr != fr['ntrades']:
                self.v(c, 'trade-count', f'C06|trade-closed-without-cycle-end|{kind}', {'before': fr['ntrades'], 'after': ntr})
        else:
            self.closed_cycles += 1
            if ntr != fr['ntrades'] + 1:
                self.v(c, 'trade-count', f'C06|cycle-end-produced-{ntr - fr["ntrades"]}-trades|{kind}', {'before': fr['ntrades'], 'after': ntr})
            else:
                self.check_trade(c, store.completed_trades.trades[-1], cyc, fr)

    def check_trade(self, c, t, cyc, fr):
        eq = sum(q for q, _ in cyc['entry'])
        xq = sum(q for q, _ in cyc['exit'])
        entry = sum(q * p for q, p in cyc['entry']) / eq if eq else None
        exitp = sum(q * p for q, p in cyc['exit']) / xq if xq else None
        tag = f"opened-by-flip={int(bool(cyc.get('after_flip')))}|closed-by-flip={int(bool(cyc.get('closed_by_flip')))}|oversize-exit={int(fr['oversize'])}"
        bad = None
        try:
            if t.type != cyc['type']:
                bad = ('type', cyc['type'], t.type)
            elif not C.close(t.qty, eq):
                bad = ('qty', eq, float(t.qty))
            elif not C.close(t.entry_price, entry):
                bad = ('entry_price', entry, float(t.entry_price))
            elif not C.close(t.exit_price, exitp):
                bad = ('exit_price', exitp, float(t.exit_price))
            elif int(t.opened_at) != cyc['opened_at']:
                bad = ('opened_at', cyc['opened_at'], int(t.opened_at))
            elif int(t.closed_at) != cyc['closed_at']:
                bad = ('closed_at', cyc['closed_at'], int(t.closed_at))
            elif self.kind == 'futures' and not (cyc.get('after_flip') or cyc.get('closed_by_flip')) and not C.close(
                    float(t.fee), self.fee * (sum(q * p for q, p in cyc['entry']) + sum(q * p for q, p in cyc['exit'])),
                    1e-9, 1e-9 * max(1.0, eq * (entry or 0.0))):
                bad = ('fee', self.fee * (sum(q * p for q, p in cyc['entry']) + sum(q * p for q, p in cyc['exit'])), float(t.fee))
            elif self.kind == 'futures' and not (cyc.get('after_flip') or cyc.get('closed_by_flip')) and not C.close(
                    float(t.pnl), (1 if cyc['type'] == 'long' else -1) * (sum(q * p for q, p in cyc['exit']) - sum(q * p for q, p in cyc['entry']))
                    - self.fee * (sum(q * p for q, p in cyc['entry']) + sum(q * p for q, p in cyc['exit'])),
                    1e-9, 1e-9 * max(1.0, eq * (entry or 0.0))):
                bad = ('pnl', None, float(t.pnl))
            elif [str(o.id) for o in t.orders] != cyc['orders'] and not (
                    cyc.get('after_flip') and [str(o.id) for o in t.orders] == cyc['orders'][1:]):
                bad = ('orders', cyc['orders'][:6], [str(o.id) for o in t.orders][:6])
        except Exception as e:
            bad = ('unreadable', None, repr(e))
        c.count('c06_trades_checked')
        if bad is not None:
            if cyc.get('after_flip') or cyc.get('closed_by_flip'):
                fp = (f"C06|trade-of-cycle-bounded-by-flip|opened-by-flip={int(bool(cyc.get('after_flip')))}"
                      f"|closed-by-flip={int(bool(cyc.get('closed_by_flip')))}")
            else:
                fp = f'C06|trade-{bad[0]}|oversize-exit={int(fr["oversize"])}'
            self.v(c, 'trade-record', fp, {'field': bad[0], 'want': bad[1], 'got': bad[2],
                                           'cycle': {k: v for k, v in cyc.items() if k != 'orders'}})

    # ------------------------------------------------------------------ end of session
    def finish(self, c):
        from jesse.store import store
        for s in self.symbols:
            p = store.positions.storage.get(f'{self.ex}-{s}')
            if p is not None and not C.close(float(p.qty), self.q[s], 1e-9, 1e-9):
                self.v(c, 'final-size', 'C06|final-position-size-differs-from-fills', {'symbol': s, 'model': self.q[s], 'jesse': float(p.qty)})
        if self.kind == 'futures':
            ex = store.exchanges.storage.get(self.ex)
            all_closed = all(self.q[s] == 0 for s in self.symbols)
            if ex is not None and all_closed:
                tot = 0.0
                turnover = 0.0
                for t in store.completed_trades.trades:
                    tot += float(t.pnl)
                    turnover += abs(float(t.qty) * float(t.entry_price))
                dw = float(ex.wallet_balance) - self.start_wallet
                c.count('c06_pnl_identity_checked')
                if abs(tot - dw) > 1e-9 * max(1.0, turnover, abs(self.start_wallet)):
                    self.v(c, 'pnl-identity', f'C06|sum-trade-pnl-differs-from-wallet-change|flip={int(self.saw_flip)}|oversize={int(self.saw_oversize and not self.saw_flip)}',
                           {'sum_trade_pnl': tot, 'wallet_change': dw, 'trades': len(store.completed_trades.trades)})

    def finished(self, c, res):
        # a session winds itself up: a position still open after the last candle is force-closed by the framework
        # (quantifier: "open position at session end"), so every cycle has closed and produced its trade by now
        from jesse.store import store
        for s in self.symbols:
            p = store.positions.storage.get(f'{self.ex}-{s}')
            if p is not None and p.is_open and self.q[s] != 0:
                self.v(c, 'cycle-left-open', f"C06|position-cycle-still-open-after-the-session-was-wound-up|type={self.kind}",
                       {'symbol': s, 'qty': float(p.qty), 'trades': len(store.completed_trades.trades)})
                break
        c.count('c06_wound_up_checks')
        if self.kind != 'futures':
            return
        m = (res or {}).get('metrics') or {}
        if 'net_profit' in m and 'finishing_balance' in m:
            a = float(m['net_profit'])
            b = float(m['finishing_balance']) - float(m['starting_balance'])
            c.count('c06_metrics_identity_checked')
            if all(self.q[s] == 0 for s in self.symbols) and abs(a - b) > 1e-9 * max(1.0, abs(float(m['starting_balance'])), abs(a) * 1e3):
                self.v(c, 'metrics-identity', f'C06|net_profit-differs-from-finishing-minus-starting|flip={int(self.saw_flip)}|oversize={int(self.saw_oversize and not self.saw_flip)}',
                       {'net_profit': a, 'finishing-starting': b})
