"""Strategy programs (DESIGN 3.4): SimStrategy is a real jesse Strategy whose behaviour is a
decision table.  Every decision is keyed by (route, hook, simulated time, nth call, name)."""
from decimal import Decimal

import numpy as np

from . import ctx as C

_SimStrategy = None


def D(x) -> Decimal:
    return Decimal(str(x))


def get_strategy_base():
    """Build the SimStrategy class lazily (jesse must be imported first)."""
    global _SimStrategy
    if _SimStrategy is not None:
        return _SimStrategy

    from jesse.strategies import Strategy
    from jesse.store import store
    import jesse.helpers as jh

    class SimStrategy(Strategy):
        _sim_route = 0

        # ------------------------------------------------------------------ plumbing
        def __init__(self):
            super().__init__()
            self._c = C.cur()
            self._prog = self._c.spec['routes'][self._sim_route]['program']
            self._calls = {}
            self._plan = None
            self._decl = {'sl': None, 'tp': None}   # latest declaration (for C10)
            self._decl_at = {'sl': None, 'tp': None}   # event sequence number of that declaration
            self._decl_seq = 0
            self._c.scratch.setdefault('strategies', {})[self._sim_route] = self

        def _u(self, hook, name, default=1.0):
            t = int(store.app.time)
            nth = self._calls.get((hook, t), 0)
            return self._c.decider.u(('dec', self._sim_route, hook, t, nth, name), default)

        def _enter_hook(self, hook):
            t = int(store.app.time)
            key = (hook, t)
            self._calls[key] = self._calls.get(key, 0) + 1
            self._cur_nth = self._calls[key] - 1
            if self._cur_nth > 400:
                raise C.SimStepBudgetExceeded(f'hook {hook} fired {self._cur_nth} times at simulated time {t}')

        def _uu(self, hook, name, default=1.0):
            """decision inside a hook already entered with _enter_hook"""
            t = int(store.app.time)
            return self._c.decider.u(('dec', self._sim_route, hook, t, self._cur_nth, name), default)

        def _observe(self, hook, extra=None):
            c = self._c
            p = self.position
            try:
                price = float(self.price)
            except Exception as e:   # recorded, never propagated
                price = None
                c.count('price_read_failed')
            ex = p.exchange
            try:
                avail = float(ex.available_margin)
            except Exception:
                avail = None
            c.ev('hook', self._sim_route, hook, int(store.app.time), int(self.index), C.fnum(price),
                 C.fnum(p.qty), C.fnum(p.entry_price), C.fnum(ex.wallet_balance), C.fnum(avail),
                 None if self.hp is None else tuple(sorted((k, C.fnum(v)) for k, v in self.hp.items())),
                 extra)
            c.count('hooks')
            # the aggregated views a strategy may consult in any hook (also outside its own execution cycle, i.e. inside
            # fill hooks): reading them is part of the workload - a value memoised at such a moment must not be served later
            try:
                c.ev('views', self._sim_route, C.fnum(self.portfolio_value), C.fnum(self.balance), C.fnum(self.available_margin))
            except Exception as e:
                c.ev('views', self._sim_route, 'raised', type(e).__name__)
            if c.scratch.get('observe_env'):
                # everything that could carry state from an earlier session of the same process (C11)
                try:
                    sv = self.shared_vars
                    c.ev('env', self._sim_route, self.exchange_type, int(self.leverage), C.fnum(self.fee_rate),
                         tuple(sorted((str(k), repr(v)) for k, v in sv.items())), len(store.logs.info) if hasattr(store.logs, 'info') else -1)
                    if hook == 'before' and self.index % 7 == 0:
                        sv[f'r{self._sim_route}'] = (int(self.index), self.symbol)
                    if hook == 'before':
                        # an indicator value as a strategy computes it (non-sequential: the framework slices the input
                        # by a process-wide setting) and that setting itself
                        import jesse.indicators as ta
                        import jesse.helpers as jh_
                        cs = self.candles
                        c.ev('env_ind', self._sim_route, int(len(cs)), C.fnum(ta.ema(cs, period=9)) if len(cs) >= 2 else None,
                             jh_.get_config('env.data.warmup_candles_num', None))
                        # the running metrics and trade list a strategy may base decisions on
                        m = self.metrics
                        c.ev('env_metrics', self._sim_route, None if not m else (int(m.get('total', -1)), C.fnum(m.get('net_profit')), C.fnum(m.get('win_rate')),
                                                                                C.fnum(m.get('fee'))), len(self.trades))
                except Exception as e:
                    c.ev('env', self._sim_route, 'raised', type(e).__name__)
            c.dispatch('hook', self, hook, extra)
            fp = self._prog.get('raise_at')
            if fp and fp[0] == hook and int(store.app.time) >= fp[1] and not c.scratch.get('fault_fired'):
                c.scratch['fault_fired'] = True
                c.count('fault_hook_exception')
                raise C.InjectedFault(f'injected fault in {hook} at {int(store.app.time)}')

        # ------------------------------------------------------------------ hyperparameters
        def hyperparameters(self):
            hp = self._prog.get('hp_decl')
            if not hp:
                return []
            return [{'name': h['name'], 'type': int if h['type'] == 'int' else float, 'min': h['min'],
                     'max': h['max'], 'default': h['default']} for h in hp]

        def dna(self):
            return self._prog.get('dna') or ''

        # ------------------------------------------------------------------ sizing helpers
        def _tick(self):
            return self._c.spec['symbols'][self.symbol]['tick']

        def _lat(self, price, dk):
            """lattice price dk ticks away from `price`"""
            tick = self._tick()
            k = int(round(price / tick)) + int(dk)
            if k < 1:
                k = 1
            return round(k * tick, 10)

        def _round_qty(self, q):
            qd = self._prog['qty_decimals']
            f = 10 ** qd
            return int(q * f) / f

        def _split(self, total, n, hook, tag):
            """split `total` into n positive decimal parts that add up exactly (decimal arithmetic)"""
            if n <= 1:
                return [total]
            qd = self._prog['qty_decimals'] + 2
            tot = D(total)
            w = [0.2 + self._uu(hook, f'{tag}_w{i}', 0.5) for i in range(n)]
            s = sum(w)
            parts = []
            acc = Decimal(0)
            for i in range(n - 1):
                q = D(round(float(tot) * (w[i] / s), qd))
                if q <= 0:
                    return [total]
                parts.append(q)
                acc += q
            last = tot - acc
            if last <= 0:
                return [total]
            parts.append(last)
            return [float(x) for x in parts]

        # ------------------------------------------------------------------ entries
        def _plan_entry(self):
            """decide in should_long/should_short whether and how to enter; stash the plan"""
            pr = self._prog
            self._plan = None
            u = self._uu('should', 'enter')
            if u >= pr['p_enter']:
                return None
            sides = pr['sides']
            if self.exchange_type == 'spot':
                side = 'long'
            elif sides == 'both':
                side = 'long' if self._uu('should', 'side', 0.0) < 0.5 else 'short'
            else:
                side = sides
            price = float(self.price)
            # decisions that depend on what the strategy can read of the candles (not only on the price)
            if pr.get('data_gate'):
                dr = self._c.spec.get('data_routes') or []
                if dr:
                    d = dr[int(self._uu('should', 'gate_route', 0.0) * len(dr)) % len(dr)]
                    try:
                        arr = self.get_candles(self.exchange, d['symbol'], d['timeframe'])
                        self._c.count('data_gate_reads')
                        if len(arr) < 2 or not (arr[-1][2] >= arr[-2][2]):
                            self._c.count('data_gate_blocked')
                            return None
                    except Exception:
                        self._c.count('data_gate_read_raised')
                        return None
            anchor = price
            if pr.get('ohlc_entries'):
                try:
                    cd = self.candles
                    if len(cd) >= 1:
                        last = cd[-1]
                        which = int(self._uu('should', 'anchor', 0.0) * 3)
                        anchor = float((last[4], last[3], last[1])[which % 3])   # low / high / open of the last trading candle
                        self._c.count('ohlc_anchored_entries')
                except Exception:
                    anchor = price
            styles = pr['entry_styles']
            style = styles[int(self._uu('should', 'style', 0.0) * len(styles)) % len(styles)]
            frac = pr['size_frac'] * (0.3 + 0.7 * self._uu('should', 'frac', 1.0))
            oa = pr.get('overspend_at')
            if oa is not None and int(store.app.time) >= oa:
                frac = 6.0     # fault plan: ask for an order the account cannot afford (a legal rejection aborts the session)
                self._c.count('fault_overspend_requested')
            dist = pr['entry_dist']
            rows = []   # (weight, price)
            if style == 'market':
                rows = [(1.0, price)]
            elif style in ('limit', 'stop'):
                dk = 1 + int(self._uu('should', 'dk', 0.0) * dist)
                better = (style == 'limit')
                sign = -1 if (side == 'long') == better else 1
                rows = [(1.0, self._lat(anchor, sign * dk))]
            else:  # ladder / mixed
                n = 2 + int(self._uu('should', 'n', 0.0) * 3)
                for i in range(n):
                    dk = 1 + int(self._uu('should', f'dk{i}', 0.0) * dist)
                    if style == 'ladder':
                        sign = -1 if side == 'long' else 1
                    else:
                        sign = -1 if self._uu('should', f'sg{i}', 0.0) < 0.5 else 1
                        if self._uu('should', f'mk{i}', 1.0) < 0.25:
                            dk = 0
                    rows.append((1.0, self._lat(anchor, sign * dk) if dk else price))
                # distinct prices only (identical rows are legal but make attribution ambiguous)
                seen = set()
                rows = [r for r in rows if not (r[1] in seen or seen.add(r[1]))]
            maxp = max(r[1] for r in rows)
            if self.exchange_type == 'spot':
                budget = float(self.balance) * frac
            else:
                budget = float(self.available_margin) * float(self.leverage) * frac
            if budget <= 0:
                return None
            total = self._round_qty(budget / maxp)
            if total <= 0:
                return None
            if pr.get('repeat_exits'):
                # fixed trade size: the size of the first trade is used again whenever it is affordable
                ft = self.__dict__.get('_fixed_total')
                if ft is None:
                    self.__dict__['_fixed_total'] = total
                elif ft <= total:
                    total = ft
            qtys = self._split(total, len(rows), 'should', 'eq')
            if len(qtys) != len(rows):
                rows = rows[:1]
            self._plan = {'side': side, 'rows': [(q, r[1]) for q, r in zip(qtys, rows)], 'style': style}
            return self._plan

        def should_long(self):
            self._enter_hook('should')
            self._observe('should_long')
            if self._prog.get('inert'):
                return False
            plan = self._plan_entry()
            return bool(plan and plan['side'] == 'long')

        def should_short(self):
            # jesse calls should_short before should_long; the plan is made in should_long.
            # To keep one plan per step we plan here and reuse in should_long.
            return False if self._prog.get('inert') else self._short_gate()

        def _short_gate(self):
            return False

        def _exit_rows(self, hook, kind, side, ref_price, qty_total, allow_odd=True, ref_lo=None, ref_hi=None):
            """rows for stop-loss ('sl') or take-profit ('tp') of a `side` position.
            ref_lo/ref_hi: extremes of the (planned) entry prices - loss-side rows are measured from the
            extreme on the loss side so that a row can never end up on the wrong side of the real entry
            price by accident (jesse replaces wrong-side rows by plain market orders of the full row size,
            which with a partially filled ladder flips the position back and forth forever)."""
            pr = self._prog
            ref_lo = ref_price if ref_lo is None else ref_lo
            ref_hi = ref_price if ref_hi is None else ref_hi
            nmax = pr['sl_rows'] if kind == 'sl' else pr['tp_rows']
            if nmax <= 0:
                return None
            n = 1 + int(self._uu(hook, f'{kind}_n', 0.0) * nmax) % nmax
            lo, hi = pr['exit_dist']
            prices = []
            for i in range(n):
                dk = lo + int(self._uu(hook, f'{kind}_dk{i}', 0.5) * (hi - lo + 1))
                loss_side = (kind == 'sl')
                sign = -1 if (side == 'long') == loss_side else 1
                base = ref_lo if sign < 0 else ref_hi
                x = self._uu(hook, f'{kind}_odd{i}', 1.0) if allow_odd else 1.0
                if x < pr['wrong_side_p']:
                    sign = -sign
                    self._c.count('wrong_side_row')
                elif x < pr['wrong_side_p'] + pr['near_band_p'] and not (
                        self.exchange_type == 'spot' and kind == 'sl' and pr['tp_rows'] > 0):
                    # (in spot a market-routed stop next to resting limit targets is an oversell jesse
                    # rejects by the very rule C04 states; not a case worth ending the run for)
                    # a row at / next to the 0.015 % market band
                    band = ref_price * 0.00015
                    choice = int(self._uu(hook, f'{kind}_band{i}', 0.0) * 4)
                    p = ref_price + sign * band * (1.0, 0.999999, 1.000001, 0.5)[choice]
                    if p > 0:
                        prices.append(float(p))
                        self._c.count('near_band_row')
                        continue
                px = self._lat(base if x >= pr['wrong_side_p'] else ref_price, sign * dk)
                if x >= pr['wrong_side_p'] and not ((sign < 0 and px < ref_lo) or (sign > 0 and px > ref_hi)):
                    # the lattice clamps at one tick: a row that ends up on the wrong side by accident is dropped
                    continue
                prices.append(px)
            if not prices:
                return None
            seen = set()
            prices = [p for p in prices if not (p in seen or seen.add(p))]
            qtys = self._split(qty_total, len(prices), hook, f'{kind}_q')
            if len(qtys) != len(prices):
                prices = prices[:1]
            return [(q, p) for q, p in zip(qtys, prices)]

        def _declare_exits(self, hook, which=('sl', 'tp'), partial=False):
            p = self.position
            if p.is_close or self._prog.get('inert'):
                return
            side = p.type
            qty = abs(float(p.qty))
            ref = float(self.price)
            for kind in which:
                rows = self._exit_rows(hook, kind, side, ref, qty)
                if rows is None:
                    continue
                if self._prog.get('repeat_exits') and hook == 'open':
                    # a strategy with fixed levels: the next trade of the same size declares exactly the same rows again
                    # (as long as they still lie on their proper side of the price)
                    sticky = self.__dict__.setdefault('_sticky_exits', {})
                    prev = sticky.get((kind, side))
                    above = (kind == 'tp') == (side == 'long')
                    if prev and abs(sum(q for q, _ in prev) - qty) <= 1e-12 * max(1.0, qty) and \
                            all((px > ref) if above else (px < ref) for _, px in prev):
                        rows = list(prev)
                        self._c.count('identical_exit_redeclared_in_next_trade')
                    else:
                        sticky[(kind, side)] = list(rows)
                other = self._decl['tp' if kind == 'sl' else 'sl']
                if other is not None and rows == other:
                    continue   # identical SL and TP is a user error jesse rejects by design
                cur = self.stop_loss if kind == 'sl' else self.take_profit
                if self._prog.get('p_inplace', 0.0) > 0 and isinstance(cur, np.ndarray) and cur.ndim == 2 and len(cur) == len(rows) \
                        and cur.shape[1] == 2 and self._uu(hook, f'{kind}_inplace', 1.0) < self._prog['p_inplace']:
                    # edit the declaration the framework handed back (a numpy array by now) in place: a trailing stop
                    # written as self.stop_loss[0][1] = price
                    for i, (q, px) in enumerate(rows):
                        cur[i][0] = q
                        cur[i][1] = px
                    self._c.count('declared_in_place')
                elif kind == 'sl':
                    self.stop_loss = rows if len(rows) > 1 else rows[0]
                else:
                    self.take_profit = rows if len(rows) > 1 else rows[0]
                if rows != self._decl[kind]:      # an identical re-declaration is no modification
                    self._decl_at[kind] = self._c.seq
                self._decl[kind] = rows
                self._decl_seq += 1
                self._c.count(f'declared_{kind}')

        def go_long(self):
            self._enter_hook('go')
            plan = self._plan
            rows = plan['rows']
            self.buy = rows if len(rows) > 1 else rows[0]
            self._c.count('entry_' + plan['style'])
            self._after_entry_decl('long', rows)
            self._observe('go_long', ('buy', tuple(rows)))

        def go_short(self):
            self._enter_hook('go')
            plan = self._plan
            rows = plan['rows']
            self.sell = rows if len(rows) > 1 else rows[0]
            self._c.count('entry_' + plan['style'])
            self._after_entry_decl('short', rows)
            self._observe('go_short', ('sell', tuple(rows)))

        def _after_entry_decl(self, side, rows):
            self._decl = {'sl': None, 'tp': None}
            self._decl_at = {'sl': None, 'tp': None}
            pr = self._prog
            if self.exchange_type == 'futures' and pr['exit_in_go']:
                qty = sum(D(q) for q, _ in rows)
                ref = sum(q * p for q, p in rows) / sum(q for q, _ in rows)
                lo = min(min(p for _, p in rows), float(self.price))
                hi = max(max(p for _, p in rows), float(self.price))
                inside = None
                cur = float(self.price)
                all_limit = all(p < cur for _, p in rows) if side == 'long' else all(p > cur for _, p in rows)
                if (self._plan or {}).get('style') == 'ladder' and len(rows) > 1 and all_limit and pr.get('p_sl_inside_ladder', 0.0) > 0 \
                        and pr['sl_rows'] > 0 and self._uu('go', 'sl_inside', 1.0) < pr['p_sl_inside_ladder']:
                    # a stop between the first row to fill and the planned average entry: on its proper side of
                    # the price the position is actually opened at, but not of the average of the declared points
                    first = max(p for _, p in rows) if side == 'long' else min(p for _, p in rows)
                    if abs(first - ref) > 2 * self._tick():
                        steps = int(round(abs(first - ref) / self._tick()))
                        dk = 1 + int(self._uu('go', 'sl_inside_dk', 0.0) * max(1, steps - 1)) % max(1, steps - 1)
                        inside = self._lat(first, -dk if side == 'long' else dk)
                for kind in ('sl', 'tp'):
                    if kind == 'sl' and inside is not None:
                        self.stop_loss = (float(qty), inside)
                        self._decl['sl'] = [(float(qty), inside)]
                        self._decl_at['sl'] = self._c.seq
                        self._c.count('declared_sl_inside_ladder')
                        continue
                    # a wrong-side row declared before the entry is replaced by jesse with a PLAIN market order of the
                    # row's size; it is only explored where that order closes the position exactly (single market
                    # entry, this the only exit row of the program) - anything else flips the position back and forth
                    odd_ok = (len(rows) == 1 and (self._plan or {}).get('style') == 'market'
                              and (pr['sl_rows'] + pr['tp_rows']) == 1)
                    rws = self._exit_rows('go', kind, side, ref, float(qty), allow_odd=odd_ok, ref_lo=lo, ref_hi=hi)
                    if rws is None:
                        continue
                    if kind == 'tp' and self._decl['sl'] is not None and rws == self._decl['sl']:
                        continue
                    if kind == 'sl':
                        self.stop_loss = rws if len(rws) > 1 else rws[0]
                    else:
                        self.take_profit = rws if len(rws) > 1 else rws[0]
                    self._decl[kind] = rws
                    self._decl_at[kind] = self._c.seq
                    self._c.count(f'declared_{kind}_in_go')

        def should_cancel_entry(self):
            self._enter_hook('sce')
            ans = not (self._uu('sce', 'keep', 1.0) < self._prog['p_keep_entry'])
            self._c.ev('sce', self._sim_route, int(store.app.time), ans)
            self._c.dispatch('sce_answer', self, ans)
            return ans

        def filters(self):
            return [self._filter_one]

        def _filter_one(self):
            self._enter_hook('filter')
            ok = not (self._uu('filter', 'reject', 1.0) < self._prog['p_filter_reject'])
            if not ok:
                self._c.count('filter_rejected')
                self._decl = {'sl': None, 'tp': None}
                self._decl_at = {'sl': None, 'tp': None}
            return ok

        # ------------------------------------------------------------------ position events
        def on_open_position(self, order):
            self._enter_hook('open')
            self._c.dispatch('open_hook_entered', self)     # before the program itself submits anything
            pr = self._prog
            if pr.get('p_hook_market', 0.0) > 0 and not pr.get('inert') and self._uu('open', 'hm', 1.0) < pr['p_hook_market']:
                # a plain market order submitted in reaction to the opening fill (scale out a part at once)
                q = self._round_qty(abs(float(self.position.qty)) * 0.3)
                closing = 'sell' if self.position.type == 'long' else 'buy'
                if any(o.is_active and not o.reduce_only and o.side == closing
                       for o in store.orders.get_active_orders(self.exchange, self.symbol)):
                    q = 0     # a plain order already rests on the closing side: a plain market order beside it could flip the position
                if q > 0:
                    if self.position.type == 'long':
                        self.broker.sell_at_market(q)
                    else:
                        self.broker.buy_at_market(q)
                    self._c.count('hook_market_orders')
            if self.exchange_type == 'spot' or not pr['exit_in_go']:
                if self._uu('open', 'set_exits', 0.0) < pr['p_exits_on_open']:
                    self._declare_exits('open')
            elif pr.get('p_refine_on_open', 0.0) > 0 and self._uu('open', 'refine', 1.0) < pr['p_refine_on_open']:
                # exits were declared in go_long/go_short; refine them now that the real entry price is known
                which = tuple(k for k in ('sl', 'tp') if self._decl[k] is not None)
                if which:
                    self._declare_exits('open', which)
                    self._c.count('exits_refined_on_open')
            self._observe('on_open_position', str(order.id))

        def on_increased_position(self, order):
            self._enter_hook('inc')
            pr = self._prog
            if pr['resize_mode'] in ('always', 'random') and (pr['resize_mode'] == 'always' or self._uu('inc', 'rs', 1.0) < 0.5):
                if self._decl['sl'] is not None or self._decl['tp'] is not None:
                    which = tuple(k for k in ('sl', 'tp') if self._decl[k] is not None)
                    self._declare_exits('inc', which)
            self._observe('on_increased_position', str(order.id))

        def on_reduced_position(self, order):
            self._enter_hook('red')
            pr = self._prog
            mode = pr['resize_mode']
            if mode == 'always' or (mode == 'random' and self._uu('red', 'rs', 1.0) < 0.5):
                # resize the *other* side (the side that did not fill) to the remaining position
                which = []
                via = getattr(order, 'submitted_via', None)
                for k, tag in (('sl', 'stop-loss'), ('tp', 'take-profit')):
                    if self._decl[k] is not None and via != tag:
                        which.append(k)
                if which:
                    self._declare_exits('red', tuple(which))
            self._observe('on_reduced_position', str(order.id))

        def on_close_position(self, order):
            self._enter_hook('close')
            self._decl = {'sl': None, 'tp': None}
            self._decl_at = {'sl': None, 'tp': None}
            pr = self._prog
            if pr.get('p_hook_reentry', 0.0) > 0 and not pr.get('inert') and self._uu('close', 'reentry', 1.0) < pr['p_hook_reentry']:
                self._hook_reentry()
            self._observe('on_close_position', str(order.id))

        def _hook_reentry(self, hk='close'):
            """a resting entry order submitted through the broker from inside the closing fill's hook (re-entry), i.e.
            while the matching loop that produced the fill is still running"""
            sp = self._c.spec
            if int(store.app.time) >= sp['start_ts'] + sp['minutes'] * 60_000:
                return      # the forced close at the end of the session
            reg = self._c.scratch.get('registry')
            if reg is not None and reg.in_liq:
                return
            # one hook-submitted entry at a time, and never next to other resting orders: two plain orders on opposite
            # sides (or one next to a hook market order) can flip the position they open - jesse's flip handling is the
            # known finding of C06 and a ping-pong hazard for programs, not what this knob is meant to explore
            if any(o.is_active for o in store.orders.get_active_orders(self.exchange, self.symbol)):
                return
            price = float(self.price)
            dk = 1 + int(self._uu(hk, 're_dk', 0.0) * max(1, self._prog['entry_dist']))
            up = self._uu(hk, 're_up', 0.0) < 0.5
            px = self._lat(price, dk if up else -dk)
            if px <= 0 or px == price:
                return
            if self.exchange_type == 'spot':
                budget = float(self.balance) * 0.1
                buy = True
            else:
                budget = float(self.available_margin) * float(self.leverage) * 0.1
                buy = self._uu(hk, 're_side', 0.0) < 0.5
            q = self._round_qty(budget / max(px, price))
            if q <= 0:
                return
            if buy:
                self.broker.buy_at(q, px)
            else:
                self.broker.sell_at(q, px)
            self._c.count('hook_reentry_orders' if hk == 'close' else 'orders_submitted_in_on_cancel')

        def on_cancel(self):
            self._enter_hook('oncancel')
            # the framework has just dropped every declaration of the cancelled trade (Strategy._reset)
            self._decl = {'sl': None, 'tp': None}
            self._decl_at = {'sl': None, 'tp': None}
            pr = self._prog
            if pr.get('p_oncancel_order', 0.0) > 0 and not pr.get('inert') and self.position.is_close \
                    and self._uu('oncancel', 'order', 1.0) < pr['p_oncancel_order']:
                # a strategy that re-places an entry as soon as its previous entries have been cancelled
                self._hook_reentry('oncancel')
            self._observe('on_cancel')

        def update_position(self):
            self._enter_hook('upd')
            pr = self._prog
            u = self._uu('upd', 'act', 1.0)
            if u < pr['p_liquidate'] and not (self.exchange_type == 'spot' and self._decl['tp'] is not None):
                self._c.count('liquidate_called')
                before = (self.stop_loss, self.take_profit)
                self.liquidate()
                # mirror the declaration liquidate() makes
                if self.position.pnl > 0:
                    self._decl['tp'] = [(abs(float(self.position.qty)), float(self.price))]
                    self._decl_at['tp'] = self._c.seq
                else:
                    self._decl['sl'] = [(abs(float(self.position.qty)), float(self.price))]
                    self._decl_at['sl'] = self._c.seq
                self._decl_seq += 1
            elif u < pr['p_liquidate'] + pr.get('p_withdraw', 0.0):
                # withdraw one kind of exit altogether (an empty declaration)
                kind = 'sl' if self._uu('upd', 'wd', 0.0) < 0.5 else 'tp'
                if self._decl[kind]:
                    if kind == 'sl':
                        self.stop_loss = []
                    else:
                        self.take_profit = []
                    self._decl[kind] = []
                    self._decl_at[kind] = self._c.seq
                    self._c.count('exit_withdrawn')
            elif u < pr['p_liquidate'] + pr.get('p_withdraw', 0.0) + pr['p_modify']:
                w = int(self._uu('upd', 'which', 0.0) * 3)
                which = (('sl',), ('tp',), ('sl', 'tp'))[w % 3]
                self._declare_exits('upd', which)
                self._c.count('exit_modified')
            elif u < pr['p_liquidate'] + pr.get('p_withdraw', 0.0) + pr['p_modify'] + pr['p_modify_entry'] and self._plan:
                self._modify_entry()
            elif u < pr['p_liquidate'] + pr.get('p_withdraw', 0.0) + pr['p_modify'] + pr['p_modify_entry'] + pr['p_broker']:
                self._broker_direct()
            self._observe('update_position')

        def _modify_entry(self):
            """re-declare the entry ladder while the position is open (increase points)"""
            p = self.position
            side = p.type
            price = float(self.price)
            dist = self._prog['entry_dist']
            dk = 1 + int(self._uu('upd', 'me_dk', 0.0) * dist)
            sign = -1 if side == 'long' else 1
            if self.exchange_type == 'spot':
                budget = float(self.balance) * 0.2
            else:
                budget = float(self.available_margin) * float(self.leverage) * 0.2
            px = self._lat(price, sign * dk)
            q = self._round_qty(budget / max(px, price))
            if q <= 0:
                return
            if side == 'long':
                self.buy = (q, px)
            else:
                self.sell = (q, px)
            self._c.count('entry_modified')

        def _broker_direct(self):
            """rare knob: direct broker calls (plain, non reduce-only orders; can flip in futures)"""
            p = self.position
            if p.is_close:
                return
            k = int(self._uu('upd', 'bk', 0.0) * 3)
            q = abs(float(p.qty))
            if self.exchange_type == 'futures':
                mult = (0.5, 1.0, 2.0)[k % 3]
                qq = self._round_qty(q * mult)
                if qq <= 0:
                    return
                need = qq * float(self.price) / float(self.leverage)
                if need > float(self.available_margin) * 0.9:
                    return
                if p.type == 'long':
                    self.broker.sell_at_market(qq)
                else:
                    self.broker.buy_at_market(qq)
                self._c.count('broker_direct_%s' % mult)
            else:
                return

        def before(self):
            self._enter_hook('before')
            self._observe('before')

        def after(self):
            self._enter_hook('after')
            self._observe('after')
            pr = self._prog
            if pr['p_dup'] > 0 and self._uu('after', 'dup', 1.0) < pr['p_dup']:
                self._c.dispatch('inject_duplicates', self)

        def before_terminate(self):
            self._enter_hook('bterm')
            self._observe('before_terminate')

        def terminate(self):
            self._enter_hook('term')
            self._observe('terminate')

        def on_route_open_position(self, strategy):
            self._c.ev('route_ev', self._sim_route, 'open', strategy._sim_route, int(store.app.time))

        def on_route_close_position(self, strategy):
            self._c.ev('route_ev', self._sim_route, 'close', strategy._sim_route, int(store.app.time))

        def on_route_increased_position(self, strategy):
            self._c.ev('route_ev', self._sim_route, 'inc', strategy._sim_route, int(store.app.time))

        def on_route_reduced_position(self, strategy):
            self._c.ev('route_ev', self._sim_route, 'red', strategy._sim_route, int(store.app.time))

        def on_route_canceled(self, strategy):
            self._c.ev('route_ev', self._sim_route, 'cancel', strategy._sim_route, int(store.app.time))

    # should_short/should_long coupling: jesse calls should_short() first, then should_long().
    def should_short(self):
        self._enter_hook('should')
        self._observe('should_short')
        if self._prog.get('inert'):
            self._plan = None
            self._planned_at = None
            return False
        plan = self._plan_entry()
        self._planned_at = (int(store.app.time), self.index)
        return bool(plan and plan['side'] == 'short')

    def should_long(self):
        if getattr(self, '_planned_at', None) != (int(store.app.time), self.index):
            # should_short was not called this step (cannot happen in jesse today; be safe)
            self._enter_hook('should')
            self._plan_entry()
        self._planned_at = None
        self._observe('should_long')
        plan = self._plan
        return bool(plan and plan['side'] == 'long')

    SimStrategy.should_short = should_short
    SimStrategy.should_long = should_long

    _SimStrategy = SimStrategy
    return SimStrategy


def strategy_class_for_route(i: int):
    base = get_strategy_base()
    return type(f'SimStrat{i}', (base,), {'_sim_route': i})


# ---------------------------------------------------------------------- program generation
def gen_program(st, exchange_type, profile=None):
    """knobs of one route's program (swarm: each run enables a random subset)"""
    profile = profile or {}
    styles_all = ['market', 'limit', 'stop', 'ladder', 'mixed']
    styles = st.subset(styles_all, 0.5, 'styles') or [st.choice(styles_all, 'style1')]
    lo = st.choice([1, 1, 2, 5, 20], 'exit_lo')
    hi = lo + st.choice([0, 2, 5, 30], 'exit_span')
    prog = {
        'p_enter': st.choice([0.03, 0.1, 0.3, 0.8], 'p_enter'),
        'sides': 'long' if exchange_type == 'spot' else st.choice(['long', 'short', 'both', 'both'], 'sides'),
        'entry_styles': styles,
        'entry_dist': st.choice([1, 2, 4, 10], 'entry_dist'),
        'size_frac': st.choice([0.05, 0.2, 0.45, 0.8], 'size_frac'),
        'qty_decimals': st.choice([0, 1, 3, 6], 'qd'),
        'exit_in_go': exchange_type == 'futures' and st.chance(0.5, 'exit_in_go'),
        'p_exits_on_open': st.choice([0.0, 0.7, 1.0, 1.0], 'p_eoo'),
        'sl_rows': st.choice([0, 1, 1, 2, 3], 'sl_rows'),
        'tp_rows': st.choice([0, 1, 1, 2, 3], 'tp_rows'),
        'exit_dist': (lo, hi),
        'wrong_side_p': st.choice([0.0, 0.0, 0.05], 'wsp'),
        'near_band_p': st.choice([0.0, 0.0, 0.1], 'nbp'),
        'p_modify': st.choice([0.0, 0.02, 0.15], 'p_modify'),
        'p_modify_entry': st.choice([0.0, 0.0, 0.03], 'p_modify_entry'),
        'p_liquidate': st.choice([0.0, 0.005, 0.03], 'p_liq'),
        'p_broker': 0.0,
        'resize_mode': st.choice(['always', 'always', 'random', 'never'], 'resize'),
        'p_keep_entry': st.choice([0.0, 0.3, 0.9], 'p_keep'),
        'p_filter_reject': st.choice([0.0, 0.0, 0.2], 'p_filt'),
        'p_dup': st.choice([0.0, 0.0, 0.05], 'p_dup'),
        'hp_decl': None,
        'dna': None,
        'raise_at': None,
        'p_withdraw': st.choice([0.0, 0.0, 0.02], 'p_withdraw'),
        'p_hook_market': st.choice([0.0, 0.0, 0.3], 'p_hook_market'),
        'p_sl_inside_ladder': st.choice([0.0, 0.3], 'p_sil'),
        'p_refine_on_open': st.choice([0.0, 0.5], 'p_roo'),
        'p_inplace': st.choice([0.0, 0.0, 0.5], 'p_inplace'),
        'repeat_exits': st.chance(0.1, 'repeat_exits'),
        'p_hook_reentry': st.choice([0.0, 0.0, 0.0, 0.4], 'p_hook_reentry'),
        'p_oncancel_order': st.choice([0.0, 0.0, 0.0, 0.5], 'p_oncancel_order'),
        'ohlc_entries': st.chance(0.3, 'ohlc'),
        'data_gate': st.chance(0.3, 'dgate'),
    }
    prog.update(profile)
    if exchange_type == 'spot':
        # a wrong-side row changes the order kind (a stop-loss above the price is a LIMIT sell), which in spot
        # adds to the other declaration's resting total and is rejected by the rule C04 states
        prog['wrong_side_p'] = 0.0
    if prog['p_broker'] > 0:
        # direct broker calls can flip a futures position.  jesse reports a flip as a fresh "open" and
        # re-submits the previous direction's declared exits as plain market orders, which flips again,
        # for ever (a user-program hazard, no property covers it): flips are explored without declared exits.
        prog['sl_rows'] = 0
        prog['tp_rows'] = 0
        prog['p_liquidate'] = 0.0
        prog['exit_in_go'] = False
    # quantities with 0 decimals need a price scale that affords at least one unit; sizing falls back
    # to "no entry" otherwise, which is fine but wastes the run: keep decimals >= 3 for expensive symbols.
    return prog
