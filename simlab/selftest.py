"""Self-tests (DESIGN 8).

  python -m simlab.selftest determinism [--n 48] [--props C01,C02,...]
      every check: the same seeds executed in separate fresh interpreters with 16 and with 3 workers and
      once more under another PYTHONHASHSEED; the per-run event-log digests must agree line by line.

  python -m simlab.selftest seeded [--tier quick] [--only id,...]
      apply every kept change under /verif/seeded/<id>/patch.diff to a scratch copy of /repo's jesse package
      (outside /repo and /verif), run the check of the property it breaks against it, expect exit 1; the copy
      is removed immediately.  Prints a table; exit 0 iff every change marked expect=caught is caught.
"""
import argparse
import glob
import json
import os
import subprocess
import sys
import tempfile
import time

VERIF = os.path.dirname(os.path.dirname(os.path.abspath(__file__)))
PY = sys.executable
ALL = ['C01', 'C02', 'C03', 'C04', 'C05', 'C06', 'C07', 'C08', 'C09', 'C10', 'C11', 'C12', 'C16', 'C18', 'C19', 'C20']


def run_check(prop, extra, env=None, timeout=3600):
    e = dict(os.environ)
    e.pop('SIMLAB_BOOTED', None)
    if env:
        e.update(env)
    p = subprocess.run([PY, '-m', 'simlab.check', prop] + extra, cwd=VERIF, env=e, capture_output=True, text=True, timeout=timeout)
    return p.returncode, p.stdout + p.stderr


def determinism(args):
    props = args.props.split(',') if args.props else ALL
    bad = []
    tmp = tempfile.mkdtemp(prefix='simlab-det-')
    for prop in props:
        files = []
        for tag, jobs, hs in (('j16', '16', '0'), ('j3', '3', '0'), ('hs7', '16', '7')):
            f = os.path.join(tmp, f'{prop}-{tag}.txt')
            rc, out = run_check(prop, ['--runs', str(args.n), '--jobs', jobs, '--digests', f, '--no-minimise', '--no-evidence', '--quiet'],
                                env={'VERIF_HASHSEED': hs})
            files.append((tag, f, rc))
        texts = [open(f).read() if os.path.exists(f) else None for _, f, _ in files]
        ok = texts[0] is not None and all(t == texts[0] for t in texts)
        n = len(texts[0].splitlines()) if texts[0] else 0
        print(f'{prop}: {n} runs x 3 executions (16 workers / 3 workers / PYTHONHASHSEED=7): {"identical digests" if ok else "DIVERGED"}  '
              f'exit codes {[rc for _, _, rc in files]}', flush=True)
        if not ok:
            bad.append(prop)
            for (tag, f, _), t in zip(files[1:], texts[1:]):
                if t != texts[0] and t is not None and texts[0] is not None:
                    a, b = texts[0].splitlines(), t.splitlines()
                    diffs = [i for i in range(min(len(a), len(b))) if a[i] != b[i]][:5]
                    print(f'   {tag}: first differing lines {diffs}: {[a[i] for i in diffs][:2]} vs {[b[i] for i in diffs][:2]}')
    for f in glob.glob(os.path.join(tmp, '*')):
        os.remove(f)
    os.rmdir(tmp)
    print('determinism self-test:', 'ok' if not bad else f'FAILED for {bad}')
    return 0 if not bad else 2


def seeded(args):
    rows = []
    only = set(args.only.split(',')) if args.only else None
    for d in sorted(glob.glob(os.path.join(VERIF, 'seeded', '*'))):
        meta_p = os.path.join(d, 'meta.json')
        if not os.path.exists(meta_p):
            continue
        meta = json.load(open(meta_p))
        sid = os.path.basename(d)
        if only and sid not in only:
            continue
        checks = meta.get('checks') or [meta['property']]
        for prop in checks:
            scratch = tempfile.mkdtemp(prefix='jm.', dir='/tmp')
            try:
                subprocess.run(['rsync', '-a', '--exclude', 'static', '--exclude', '__pycache__', '/repo/jesse', scratch + '/'], check=True)
                os.makedirs(os.path.join(scratch, 'jesse', 'static'), exist_ok=True)
                ap = subprocess.run(['patch', '-p1', '-s', '-d', scratch, '-i', os.path.join(d, 'patch.diff')], capture_output=True, text=True)
                if ap.returncode != 0:
                    rows.append((sid, prop, 'PATCH-FAILED', 0, ap.stdout[-200:]))
                    continue
                t0 = time.time()
                rc, out = run_check(prop, ['--tier', args.tier, '--repo', scratch, '--no-evidence', '--no-minimise', '--quiet'])
                fps = [l.split('fingerprint=')[1].split(' runs=')[0] for l in out.splitlines() if l.startswith('violation: fingerprint=')]
                rows.append((sid, prop, 'caught' if rc == 1 else ('MISSED' if rc == 0 else f'rc={rc}'), round(time.time() - t0), '; '.join(fps[:2])))
            finally:
                subprocess.run(['rm', '-rf', scratch])
            print(rows[-1], flush=True)
    missed = [r for r in rows if r[2] != 'caught']
    print(f'seeded changes: {len(rows)} (change, check) pairs, {len(rows) - len(missed)} caught, {len(missed)} not')
    expected_missed = set()
    for d in glob.glob(os.path.join(VERIF, 'seeded', '*', 'meta.json')):
        m = json.load(open(d))
        if m.get('expect') == 'missed':
            expected_missed.add(os.path.basename(os.path.dirname(d)))
    unexpected = [r for r in missed if r[0] not in expected_missed]
    return 0 if not unexpected else 1


def corpus(args):
    """for every seeded change: run the check that catches it, keep up to `per` work items that exposed it"""
    out = {}
    path = os.path.join(VERIF, 'corpus.json')
    if os.path.exists(path) and not args.fresh:
        out = json.load(open(path))
    for d in sorted(glob.glob(os.path.join(VERIF, 'seeded', '*'))):
        meta_p = os.path.join(d, 'meta.json')
        if not os.path.exists(meta_p):
            continue
        meta = json.load(open(meta_p))
        sid = os.path.basename(d)
        if args.only and sid not in args.only.split(','):
            continue
        for prop in (meta.get('checks') or [meta['property']]):
            scratch = tempfile.mkdtemp(prefix='jm.', dir='/tmp')
            cf = os.path.join(scratch, 'caught.json')
            try:
                subprocess.run(['rsync', '-a', '--exclude', 'static', '--exclude', '__pycache__', '/repo/jesse', scratch + '/'], check=True)
                os.makedirs(os.path.join(scratch, 'jesse', 'static'), exist_ok=True)
                ap = subprocess.run(['patch', '-p1', '-s', '-d', scratch, '-i', os.path.join(d, 'patch.diff')], capture_output=True, text=True)
                if ap.returncode != 0:
                    print(sid, prop, 'PATCH-FAILED')
                    continue
                run_check(prop, ['--tier', args.tier, '--repo', scratch, '--no-evidence', '--no-minimise', '--quiet', '--no-corpus', '--catch-file', cf],
                          env={'VERIF_SEED': '0'})
                caught = json.load(open(cf)) if os.path.exists(cf) else []
                # prefer different fingerprints
                picked, seen = [], set()
                already = {(x['seed'], x.get('mode')) for x in out.get(prop, [])}
                fresh_first = [c for c in caught if (c['seed'], c['mode']) not in already] + [c for c in caught if (c['seed'], c['mode']) in already]
                for c in fresh_first:
                    key = tuple(c['fingerprints'][:1])
                    if key in seen and len(picked) >= args.per:
                        continue
                    if key not in seen or len(picked) < args.per:
                        picked.append({'seed': c['seed'], 'mode': c['mode'], 'from': sid})
                        seen.add(key)
                    if len(picked) >= args.per:
                        break
                lst = out.setdefault(prop, [])
                have = {(x['seed'], x.get('mode')) for x in lst}
                for x in picked:
                    if x['seed'] is not None and (x['seed'], x.get('mode')) not in have:
                        lst.append(x)
                print(sid, prop, f'{len(caught)} exposing runs, kept {len(picked)}', flush=True)
            finally:
                subprocess.run(['rm', '-rf', scratch])
    with open(path, 'w') as f:
        json.dump(out, f, indent=1)
    print('corpus.json:', {k: len(v) for k, v in out.items()})
    return 0


def main():
    ap = argparse.ArgumentParser()
    sub = ap.add_subparsers(dest='cmd', required=True)
    a = sub.add_parser('determinism')
    a.add_argument('--n', type=int, default=48)
    a.add_argument('--props', default=None)
    b = sub.add_parser('seeded')
    b.add_argument('--tier', default='quick')
    b.add_argument('--only', default=None)
    cpar = sub.add_parser('corpus')
    cpar.add_argument('--tier', default='quick')
    cpar.add_argument('--per', type=int, default=3)
    cpar.add_argument('--only', default=None)
    cpar.add_argument('--fresh', action='store_true')
    args = ap.parse_args()
    if args.cmd == 'determinism':
        return determinism(args)
    if args.cmd == 'corpus':
        return corpus(args)
    return seeded(args)


if __name__ == '__main__':
    sys.exit(main())
