"""entry point: python -m simlab.check <Cxx> ... (kept thin so the real code is imported once, as simlab.cli)"""
import sys

if __name__ == '__main__':
    from simlab.cli import main
    sys.exit(main())
