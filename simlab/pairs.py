"""Two-run (hyperproperty) checks: C01 future replacement, C12 scheduler swap.  Each side runs in its
own forked grandchild so process-global state cannot couple them; both are offered identical keyed
decisions."""
import copy

import numpy as np

from . import ctx as C
from . import session as S
from . import runner as R
from . import farm
from .checklib import BaseCheck
from .prng import Stream, run_seed
from .session import TF_MIN


class CandleDigestMonitor:
    """records what a strategy can read of every (symbol, timeframe) at every hook"""

    def __init__(self, full_first=False):
        self.full_first = full_first     # also a digest of the WHOLE readable array at the first hook (warm-up history)

    def session_begin(self, c, spec, full_candles):
        self.ex = spec['exchange']
        self.first = True
        seen = set()
        self.pairs = []
        for r in spec['routes'] + spec['data_routes']:
            k = (r['symbol'], r['timeframe'])
            if k not in seen:
                seen.add(k)
                self.pairs.append(k)
        for s in full_candles:
            if (s, '1m') not in seen:
                self.pairs.append((s, '1m'))

    def hook(self, c, strat, hook, extra):
        from jesse.store import store
        for (sym, tf) in self.pairs:
            try:
                a = np.asarray(store.candles.get_candles(self.ex, sym, tf))
                c.ev('candles', sym, tf, int(len(a)), a[-3:].tobytes().hex() if len(a) else '')
                if self.full_first and self.first:
                    import hashlib
                    c.ev('candles_all', sym, tf, int(len(a)), hashlib.blake2b(np.ascontiguousarray(a).tobytes(), digest_size=12).hexdigest())
            except Exception as e:
                c.ev('candles', sym, tf, 'raised', type(e).__name__)
        self.first = False


class FeedAheadMonitor:
    """C01, structural clause: at a hook of a route, no OTHER symbol may have been fed candles beyond the route's own
    symbol (the simulators feed every symbol the same minute / chunk before any strategy runs; inside one symbol's
    matching the symbols fed later are still behind).  A symbol fed ahead is readable future - and it would also
    push the feed horizon that bounds the prefix comparison, hiding itself from it."""

    def session_begin(self, c, spec, full_candles):
        self.fast = int(bool(spec.get('fast')))

    def hook(self, c, strat, hook, extra):
        own = c.horizon.get(strat.symbol)
        if own is None:
            return
        c.count('c01_feed_order_checks')
        for s, h in c.horizon.items():
            if s != strat.symbol and h > own:
                c.violate('C01', 'fed-ahead', f'C01|another-symbol-fed-beyond-the-candles-of-the-running-route|fast={self.fast}',
                          {'route_symbol': strat.symbol, 'fed_until': own, 'other': s, 'other_fed_until': h, 'minutes_ahead': (h - own) / 60000, 'hook': hook})
                return


def _run_side(arg):
    spec, candles, monitors_factory = arg
    fc = {s: np.array(a, dtype=np.float64) for s, a in candles.items()}
    c, out = R.execute_session(spec, fc, monitors_factory())
    trades = []
    for t in ((out.get('result') or {}).get('trades') or []):
        trades.append(tuple(C.fnum(t.get(k)) if isinstance(t.get(k), (int, float, np.floating, np.integer)) and not isinstance(t.get(k), bool) else str(t.get(k))
                            for k in ('symbol', 'type', 'qty', 'entry_price', 'exit_price', 'opened_at', 'closed_at', 'fee', 'PNL')))
    return {'trace': c.trace, 'status': out['status'], 'exc': out.get('exc'), 'where': out.get('where'),
            'exc_type': out.get('exc_type'), 'counters': dict(c.counters), 'events': len(c.trace),
            'metrics': R.jsonable((out.get('result') or {}).get('metrics')), 'tb': out.get('tb'), 'trades': trades,
            'violations': R.jsonable(c.violations[:20])}


def run_side(spec, fc, monitors_factory):
    return farm.run_in_child(_run_side, (spec, {s: a for s, a in fc.items()}, monitors_factory))


def first_diff(a, b):
    n = min(len(a), len(b))
    for i in range(n):
        if a[i] != b[i]:
            return i
    return n if len(a) != len(b) else None


# =============================================================================== C01
class FutureReplacementCheck(BaseCheck):
    prop = 'C01'

    def __init__(self, profile, tiers, **kw):
        self.profile = profile
        self.tiers = tiers
        for k, v in kw.items():
            setattr(self, k, v)

    def monitors(self):
        return [CandleDigestMonitor(), FeedAheadMonitor()]

    def make_pair(self, seed):
        pf = self.profile(Stream(seed, 'profile')) if callable(self.profile) else self.profile
        specA = S.gen_spec(seed, pf)
        st = Stream(seed, 'cut')
        n = specA['minutes']
        if specA['fast']:
            unit = int(np.lcm.reduce([TF_MIN[r['timeframe']] for r in specA['routes']]))
        else:
            unit = 1
        kmax = (n - 1) // unit
        if kmax < 1:
            cut = None
        else:
            cut = unit * st.randint(1, kmax, 'k')
        specB = copy.deepcopy(specA)
        if cut is not None:
            shift = st.choice([0, 0, 3, -3, 15, -15], 'shift')
            if pf.get('big_gap'):
                k0 = max(cp['k0'] for cp in specA['symbols'].values())
                shift = int(k0 * st.choice([0.006, 0.012, 0.03, 0.08], 'gap')) * st.choice([1, -1], 'gapsign')
                specA['tails'] = [{'cut': cut, 'id': 0, 'shift': -shift if st.chance(0.5, 'agap') else 0}]
            specB['tails'] = [{'cut': cut, 'id': 1 + st.randint(0, 1000, 'tid'), 'shift': shift}]
            tail_len = st.choice([1, 2, 5, n - cut, n - cut, st.randint(1, 300, 'tl')], 'tlen')
            specB['minutes'] = cut + max(1, tail_len)
            # other regime in the tail: change volatility parameters via another block size
        return specA, specB, cut

    def compare(self, ta, tb, t_cut):
        pa = [e for e in ta if e[1] < t_cut]
        pb = [e for e in tb if e[1] < t_cut]
        return pa, pb, first_diff(pa, pb)

    def run_one(self, arg):
        seed = arg['seed']
        specA, specB, cut = self.make_pair(seed)
        res = {'seed': seed, 'k': arg['k'], 'violations': [], 'counters': {}, 'minutes': 0, 'events': 0, 'status': 'ok',
               'nontrivial': False, 'sig': '', 'digest': ''}
        if cut is None:
            res['status'] = 'vacuous'
            res['counters']['vacuous_no_cut'] = 1
            return res
        fa = S.build_candles(specA)
        fb = S.build_candles(specB)
        w = specA['warmup']
        t_cut = specA['start_ts'] + cut * 60_000
        # sanity (harness): heads are bit-identical
        for s in fa:
            if not np.array_equal(fa[s][:w + cut], fb[s][:w + cut]):
                raise farm.HarnessError('tail replacement disturbed the head of the candle series')
        A = run_side(specA, fa, self.monitors)
        B = run_side(specB, fb, self.monitors)
        return self.judge(res, specA, specB, fa, fb, cut, t_cut, A, B, arg)

    def judge(self, res, specA, specB, fa, fb, cut, t_cut, A, B, arg):
        pa, pb, d = self.compare(A['trace'], B['trace'], t_cut)
        cnt = res['counters']
        for k, v in A['counters'].items():
            cnt[k] = cnt.get(k, 0) + v
        cnt['prefix_events'] = len(pa)
        cnt['pairs_fast' if specA['fast'] else 'pairs_step'] = 1
        kinds = [e[0] for e in pa]
        if 'order_new' in kinds:
            cnt['prefix_with_orders'] = 1
        # reach probes: cut inside an open position / with resting orders
        last_hook = None
        for e in reversed(pa):
            if e[0] == 'hook':
                last_hook = e
                break
        if last_hook is not None and last_hook[7] not in ('0.0', '0', 'None'):
            cnt['cut_inside_open_position'] = 1
        new = sum(1 for e in pa if e[0] == 'order_new')
        fin = sum(1 for e in pa if e[0] in ('exec_end', 'cancel') and 'ACTIVE' in e[:4])
        if any(TF_MIN[r['timeframe']] > 1 and cut % TF_MIN[r['timeframe']] != 0 for r in specA['routes'] + specA['data_routes']):
            cnt['cut_inside_forming_candle'] = 1
        res['minutes'] = (specA['minutes'] + specB['minutes']) * len(specA['symbols'])
        res['events'] = A['events'] + B['events']
        res['status'] = A['status'] + '/' + B['status']
        res['nontrivial'] = len(pa) > 20 and 'order_new' in kinds
        res['sig'] = R.trace_signature(pa)
        res['digest'] = C.digest_trace(A['trace']) + C.digest_trace(B['trace'])
        for side, X in (('A', A), ('B', B)):
            if X['status'] in ('exception', 'step-budget', 'harness-exception'):
                if X['status'] == 'harness-exception':
                    raise farm.HarnessError('harness exception in side ' + side + ': ' + str(X.get('tb')))
                res['violations'].append({'property': 'C01', 'clause': 'session-aborted',
                                          'fingerprint': f"C01|session-aborted|{X.get('exc_type')}|{X.get('where')}|fast={int(specA['fast'])}",
                                          'detail': {'side': side, 'exc': X.get('exc'), 'tb': X.get('tb')}, 'seq': 0, 'horizon': -1})
        seen_fp = set()
        for v in (A.get('violations') or []) + (B.get('violations') or []):
            if v.get('property') == 'C01' and v['fingerprint'] not in seen_fp:
                seen_fp.add(v['fingerprint'])
                res['violations'].append({'property': 'C01', 'clause': v.get('clause'), 'fingerprint': v['fingerprint'],
                                          'detail': v.get('detail'), 'seq': v.get('seq', 0), 'horizon': v.get('horizon', -1)})
        if d is not None:
            ea = pa[d] if d < len(pa) else None
            eb = pb[d] if d < len(pb) else None
            kind = (ea or eb)[0]
            sub = ''
            if kind == 'hook':
                sub = '|' + str((ea or eb)[3])
            res['violations'].append({
                'property': 'C01', 'clause': 'prefix-differs',
                'fingerprint': f"C01|prefix-differs|fast={int(specA['fast'])}|first-diff={kind}{sub}",
                'detail': {'index': d, 'A': R.jsonable(ea), 'B': R.jsonable(eb), 'cut_minute': cut, 't_cut': t_cut,
                           'prefix_len': [len(pa), len(pb)]},
                'seq': d, 'horizon': (ea or eb)[1]})
        if res['violations']:
            sa = dict(specA)
            sa['candles'] = {s: a.tolist() for s, a in fa.items()}
            sb = dict(specB)
            sb['candles'] = {s: a.tolist() for s, a in fb.items()}
            res['replay'] = {'kind': 'pair-future', 'specA': R.jsonable(sa), 'specB': R.jsonable(sb), 'cut': cut, 't_cut': t_cut}
        if arg.get('want_sample'):
            res['sample'] = {'spec': R.jsonable(R.spec_summary(specA)), 'cut_minute': cut, 'tail': specB['tails'],
                             'minutes_B': specB['minutes'], 'prefix_events': len(pa), 'first_diff': d}
        return res

    def minimise(self, payload, test, violation, budget_s):
        """shorten both futures: B to one candle after the cut, A to a few candles after the cut"""
        import time
        deadline = time.monotonic() + budget_s
        fp = violation['fingerprint']
        cut = payload['cut']
        best = payload
        steps = []

        def trunc(p, side, minutes):
            q = copy.deepcopy(p)
            sp = q[side]
            w = sp.get('warmup', 0)
            if minutes >= sp['minutes']:
                return None
            sp['minutes'] = minutes
            for s_ in list(sp['candles']):
                sp['candles'][s_] = sp['candles'][s_][:w + minutes]
            return q

        def fails(p):
            try:
                r = test(p)
            except Exception:
                return False
            return any(v['fingerprint'] == fp for v in r.get('violations', []))
        for side, extras in (('specB', (1, 16)), ('specA', (1, 5, 16, 61))):
            for extra in extras:
                if time.monotonic() >= deadline:
                    break
                cand = trunc(best, side, cut + extra)
                if cand is not None and fails(cand):
                    best = cand
                    steps.append(f'{side} minutes -> cut+{extra}')
                    break
        best = dict(best)
        best['minimised'] = steps
        return best

    def replay(self, payload):
        specA = _fix_spec(copy.deepcopy(payload['specA']))
        specB = _fix_spec(copy.deepcopy(payload['specB']))
        fa = {s: np.array(a, dtype=np.float64) for s, a in specA.pop('candles').items()}
        fb = {s: np.array(a, dtype=np.float64) for s, a in specB.pop('candles').items()}
        A = run_side(specA, fa, self.monitors)
        B = run_side(specB, fb, self.monitors)
        res = {'seed': specA['seed'], 'k': -1, 'violations': [], 'counters': {}, 'minutes': 0, 'events': 0, 'status': 'ok',
               'nontrivial': False, 'sig': '', 'digest': ''}
        return self.judge(res, specA, specB, fa, fb, payload['cut'], payload['t_cut'], A, B, {})


def _fix_spec(spec):
    for r in spec['routes']:
        ed = r['program'].get('exit_dist')
        if isinstance(ed, list):
            r['program']['exit_dist'] = tuple(ed)
        ra = r['program'].get('raise_at')
        if isinstance(ra, list):
            r['program']['raise_at'] = tuple(ra)
    return spec


# =============================================================================== C12
class SchedulerSwapCheck(BaseCheck):
    prop = 'C12'

    def __init__(self, profile, tiers, **kw):
        self.profile = profile
        self.tiers = tiers
        for k, v in kw.items():
            setattr(self, k, v)

    def monitors(self):
        return []

    @staticmethod
    def summarise(trace):
        """executed orders, closed positions and liquidations out of a trace"""
        orders = {}
        fills = []
        for e in trace:
            if e[0] == 'order_new':
                orders[e[2]] = e
            elif e[0] == 'exec_end' and e[3] == 'EXECUTED':
                o = orders.get(e[2])
                if o is not None and (e[2], 'x') not in orders:
                    orders[(e[2], 'x')] = True
                    fills.append((o[4], o[5], o[6], o[7], o[8], e[4]))   # side, type, qty, price, reduce_only, executed_at
        return fills

    def run_one(self, arg):
        seed = arg['seed']
        pf = self.profile(Stream(seed, 'profile')) if callable(self.profile) else self.profile
        spec = S.gen_spec(seed, dict(pf, fast=False))
        fc = S.build_candles(spec)
        specF = copy.deepcopy(spec)
        specF['fast'] = True
        N = run_side(spec, fc, self.monitors)
        F = run_side(specF, fc, self.monitors)
        return self.judge(spec, fc, N, F, arg)

    def judge(self, spec, fc, N, F, arg):
        res = {'seed': spec['seed'], 'k': arg.get('k', -1), 'violations': [], 'counters': {}, 'minutes': 2 * spec['minutes'],
               'events': N['events'] + F['events'], 'status': N['status'] + '/' + F['status'], 'nontrivial': False,
               'sig': R.trace_signature(N['trace']), 'digest': C.digest_trace(N['trace']) + C.digest_trace(F['trace'])}
        cnt = res['counters']
        tf = TF_MIN[spec['routes'][0]['timeframe']]
        cnt['tf_%s' % spec['routes'][0]['timeframe']] = 1
        for X in (N, F):
            if X['status'] == 'harness-exception':
                raise farm.HarnessError('harness exception: ' + str(X.get('tb')))
        fn = self.summarise(N['trace'])
        ff = self.summarise(F['trace'])
        # precondition on the NORMAL run: at most one resting-order fill per trading-candle span, no liquidation
        liq = any(e[0] == 'hook' and False for e in N['trace'])
        windows = {}
        for (side, typ, qty, price, ro, at) in fn:
            if typ in ('LIMIT', 'STOP') and at is not None:
                wdx = (int(at) - 60_000 - spec['start_ts']) // (tf * 60_000)
                windows[wdx] = windows.get(wdx, 0) + 1
        n_liq = N['counters'].get('liquidations_seen', 0)
        pre = all(v <= 1 for v in windows.values()) and n_liq == 0
        cnt['fills_normal'] = len(fn)
        if not pre:
            cnt['vacuous_precondition_false'] = 1
            if n_liq:
                cnt['vacuous_liquidation'] = 1
            return res
        cnt['precondition_true'] = 1
        if N['status'] == 'exception' or F['status'] == 'exception' or 'step-budget' in (N['status'], F['status']):
            bad = F if F['status'] in ('exception', 'step-budget') else N
            res['violations'].append({'property': 'C12', 'clause': 'session-aborted',
                                      'fingerprint': f"C12|session-aborted|normal={N['status']}|fast={F['status']}|{bad.get('exc_type')}|{bad.get('where')}",
                                      'detail': {'normal': N.get('exc'), 'fast': F.get('exc'), 'tb': bad.get('tb')}, 'seq': 0, 'horizon': -1})
        else:
            res['nontrivial'] = len(fn) > 0
            d = first_diff(fn, ff)
            if d is not None:
                a = fn[d] if d < len(fn) else None
                b = ff[d] if d < len(ff) else None
                what = 'count'
                if a is not None and b is not None:
                    names = ('side', 'type', 'qty', 'price', 'reduce_only', 'fill-minute')
                    what = next((names[i] for i in range(6) if a[i] != b[i]), '?')
                res['violations'].append({'property': 'C12', 'clause': 'executed-orders-differ',
                                          'fingerprint': f"C12|executed-orders-differ|field={what}|tf={spec['routes'][0]['timeframe']}|type={spec['type']}",
                                          'detail': {'index': d, 'normal': R.jsonable(a), 'fast': R.jsonable(b), 'n': [len(fn), len(ff)]},
                                          'seq': d, 'horizon': -1})
            else:
                # "the same closed trades": side, size, entry and exit price, open and close time, fee and PnL
                tn, tfz = N.get('trades') or [], F.get('trades') or []
                cnt['closed_trades_compared'] = len(tn)
                dt = first_diff(tn, tfz)
                if dt is not None:
                    a = tn[dt] if dt < len(tn) else None
                    b = tfz[dt] if dt < len(tfz) else None
                    what = 'count'
                    if a is not None and b is not None:
                        names = ('symbol', 'type', 'qty', 'entry_price', 'exit_price', 'opened_at', 'closed_at', 'fee', 'pnl')
                        what = next((names[i] for i in range(len(names)) if a[i] != b[i]), '?')
                    res['violations'].append({'property': 'C12', 'clause': 'closed-trades-differ',
                                              'fingerprint': f"C12|closed-trades-differ|field={what}|type={spec['type']}",
                                              'detail': {'index': dt, 'normal': R.jsonable(a), 'fast': R.jsonable(b), 'n': [len(tn), len(tfz)]},
                                              'seq': dt, 'horizon': -1})
                mn, mf = N.get('metrics') or {}, F.get('metrics') or {}
                for k in ('total', 'finishing_balance', 'net_profit', 'fee', 'total_winning_trades', 'longs_count'):
                    a, b = mn.get(k), mf.get(k)
                    if (a is None) != (b is None) or (a is not None and not C.close(a, b, 1e-9, 1e-9)):
                        res['violations'].append({'property': 'C12', 'clause': 'results-differ',
                                                  'fingerprint': f"C12|results-differ|{k}|type={spec['type']}",
                                                  'detail': {'metric': k, 'normal': a, 'fast': b}, 'seq': 0, 'horizon': -1})
                        break
                if N['status'] != F['status']:
                    res['violations'].append({'property': 'C12', 'clause': 'status-differs',
                                              'fingerprint': f"C12|status-differs|normal={N['status']}|fast={F['status']}",
                                              'detail': {'normal': N.get('exc'), 'fast': F.get('exc')}, 'seq': 0, 'horizon': -1})
        if res['violations']:
            sp = dict(spec)
            sp['candles'] = {s: a.tolist() for s, a in fc.items()}
            res['replay'] = {'kind': 'pair-swap', 'spec': R.jsonable(sp)}
        if arg.get('want_sample'):
            res['sample'] = {'spec': R.jsonable(R.spec_summary(spec)), 'fills_normal': R.jsonable(fn[:8]), 'precondition': pre}
        return res

    def minimise(self, payload, test, violation, budget_s):
        import time
        deadline = time.monotonic() + budget_s
        fp = violation['fingerprint']
        sp = payload['spec']
        best = payload
        steps = []
        d = violation.get('detail') or {}
        at = None
        for side in ('normal', 'fast'):
            x = d.get(side)
            if isinstance(x, list) and len(x) == 6 and x[5]:
                at = max(at or 0, int(x[5]))
        if at:
            tfm = TF_MIN[sp['routes'][0]['timeframe']]
            m = int((at - sp['start_ts']) // 60_000)
            for extra in (tfm, 4 * tfm):
                n = ((m + extra) // tfm + 1) * tfm
                if n >= sp['minutes'] or time.monotonic() >= deadline:
                    continue
                cand = copy.deepcopy(best)
                w = cand['spec'].get('warmup', 0)
                cand['spec']['minutes'] = n
                for s_ in list(cand['spec']['candles']):
                    cand['spec']['candles'][s_] = cand['spec']['candles'][s_][:w + n]
                try:
                    r = test(cand)
                    ok = any(v['fingerprint'] == fp for v in r.get('violations', []))
                except Exception:
                    ok = False
                if ok:
                    best = cand
                    steps.append(f'minutes -> {n}')
                    break
        best = dict(best)
        best['minimised'] = steps
        return best

    def replay(self, payload):
        spec = _fix_spec(copy.deepcopy(payload['spec']))
        fc = {s: np.array(a, dtype=np.float64) for s, a in spec.pop('candles').items()}
        spec['fast'] = False
        specF = copy.deepcopy(spec)
        specF['fast'] = True
        N = run_side(spec, fc, self.monitors)
        F = run_side(specF, fc, self.monitors)
        return self.judge(spec, fc, N, F, {})
