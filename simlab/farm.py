"""Process farm (DESIGN 3.1): the parent imports jesse once and installs the seams; pool workers are
forked from it; every run executes in a fresh fork of a worker and ships its result through a pipe.
Hangs are bounded twice: a deterministic step budget inside the seams and a wall-clock guard here
(whose expiry is a harness error, never a pass and never a violation)."""
import os
import sys
import glob
import pickle
import select
import shutil
import signal
import time
import traceback
import faulthandler
from concurrent.futures import ProcessPoolExecutor
import multiprocessing as mp

from . import boot

CHILD_TIMEOUT = float(os.environ.get('SIMLAB_CHILD_TIMEOUT', '180'))
_IN_CHILD = False


class HarnessError(Exception):
    pass


def run_in_child(fn, arg, timeout=None):
    """Execute fn(arg) in a forked child; return its (picklable) result.
    Raises HarnessError on timeout / crash of the child."""
    timeout = timeout or CHILD_TIMEOUT
    r, w = os.pipe()
    sys.stdout.flush()
    sys.stderr.flush()
    pid = os.fork()
    if pid == 0:
        code = 0
        try:
            os.close(r)
            global _IN_CHILD
            if not _IN_CHILD:
                # top-level run child: own process group, so that a wall-clock kill also takes its
                # grandchildren (two-run checks fork each side again).  No faulthandler watchdog here:
                # its thread does not survive fork() and re-arming it in a grandchild deadlocks.
                _IN_CHILD = True
                try:
                    os.setpgid(0, 0)
                except OSError:
                    pass
            try:
                res = ('ok', fn(arg))
            except BaseException:
                res = ('err', traceback.format_exc())
            data = pickle.dumps(res, protocol=pickle.HIGHEST_PROTOCOL)
            mv = memoryview(data)
            while len(mv):
                n = os.write(w, mv[:1 << 16])
                mv = mv[n:]
            os.close(w)
        except BaseException:
            code = 3
        finally:
            os._exit(code)
    os.close(w)
    chunks = []
    deadline = time.monotonic() + timeout
    timed_out = False
    while True:
        left = deadline - time.monotonic()
        if left <= 0:
            timed_out = True
            break
        rl, _, _ = select.select([r], [], [], min(left, 5.0))
        if rl:
            b = os.read(r, 1 << 20)
            if not b:
                break
            chunks.append(b)
    os.close(r)
    if timed_out:
        try:
            if not _IN_CHILD:
                os.killpg(pid, signal.SIGKILL)
            else:
                os.kill(pid, signal.SIGKILL)
        except OSError:
            try:
                os.kill(pid, signal.SIGKILL)
            except OSError:
                pass
        os.waitpid(pid, 0)
        raise HarnessError(f'child timed out after {timeout}s (arg={arg!r:.200})')
    _, status = os.waitpid(pid, 0)
    if not chunks:
        raise HarnessError(f'child died without a result (status={status}, arg={arg!r:.200})')
    kind, val = pickle.loads(b''.join(chunks))
    if kind == 'err':
        raise HarnessError('exception inside harness code in child:\n' + val)
    return val


_TASKS = {}


def register(name, fn):
    _TASKS[name] = fn


def _worker_batch(payload):
    name, args, tag = payload
    _worker_setup(tag)
    fn = _TASKS[name]
    out = []
    for a in args:
        try:
            out.append(('ok', run_in_child(fn, a)))
        except HarnessError as e:
            out.append(('harness', str(e)))
    return out


_setup_done = False


def _worker_setup(tag):
    global _setup_done
    if _setup_done:
        return
    _setup_done = True
    d = os.path.join(boot.WORK_DIR, f'cwd-{tag}-{os.getpid()}')
    os.makedirs(d, exist_ok=True)
    os.chdir(d)


def map_runs(name, args, jobs=None, batch=6, progress=None):
    """Run task `name` on each arg, each in a fresh forked child, on `jobs` workers.
    Returns results in the order of args: list of ('ok', result) | ('harness', message)."""
    jobs = jobs or int(os.environ.get('SIMLAB_JOBS', os.cpu_count() or 4))
    tag = f'p{os.getpid()}'
    args = list(args)
    if not args:
        return []
    batches = [args[i:i + batch] for i in range(0, len(args), batch)]
    results = [None] * len(batches)
    try:
        if jobs <= 1:
            for i, b in enumerate(batches):
                results[i] = _worker_batch((name, b, tag))
                if progress:
                    progress(i + 1, len(batches))
        else:
            ctxm = mp.get_context('fork')
            with ProcessPoolExecutor(max_workers=min(jobs, len(batches)), mp_context=ctxm) as ex:
                futs = {ex.submit(_worker_batch, (name, b, tag)): i for i, b in enumerate(batches)}
                done = 0
                from concurrent.futures import as_completed
                for f in as_completed(futs):
                    i = futs[f]
                    try:
                        results[i] = f.result()
                    except Exception as e:  # worker died
                        results[i] = [('harness', f'worker failed: {e!r}')] * len(batches[i])
                    done += 1
                    if progress:
                        progress(done, len(batches))
    finally:
        for d in glob.glob(os.path.join(boot.WORK_DIR, f'cwd-{tag}-*')):
            shutil.rmtree(d, ignore_errors=True)
    flat = []
    for r in results:
        flat.extend(r)
    return flat
