"""Reference account models, written from the property statements (C03, C04, C16), never by calling
the code under test."""
from decimal import Decimal


def D(x) -> Decimal:
    return Decimal(str(x))


class MarginAccount:
    """average-cost margin account (futures). One wallet, several symbols."""

    def __init__(self, balance, leverage, fee):
        self.W = float(balance)
        self.L = float(leverage)
        self.f = float(fee)
        self.q = {}      # symbol -> signed size
        self.e = {}      # symbol -> average entry
        self.rest = {}   # order id -> (symbol, signed qty, price)   non-reduce-only only
        self.last = None  # description of the last fill (for fingerprints)

    def sym(self, s):
        self.q.setdefault(s, 0.0)
        self.e.setdefault(s, None)

    # ---- queries
    def order_margin(self, s):
        b = 0.0
        a = 0.0
        for (sym, q, p) in self.rest.values():
            if sym != s:
                continue
            if q > 0:
                b += q * p
            else:
                a += q * p
        return max(abs(b), abs(a)) / self.L

    def upnl(self, s, mark):
        q = self.q.get(s, 0.0)
        if q == 0 or mark is None or self.e.get(s) is None:
            return 0.0
        return (mark - self.e[s]) * q

    def available(self, marks):
        m = self.W
        for s in self.q:
            q = self.q[s]
            if q != 0:
                m -= self.e[s] * abs(q) / self.L
                m += self.upnl(s, marks.get(s))
            m -= self.order_margin(s)
        return m

    def equity(self, marks):
        return self.W + sum(self.upnl(s, marks.get(s)) for s in self.q)

    def required(self, qty, price):
        return abs(qty * price) / self.L

    # ---- operations
    def submit(self, oid, s, qty, price, reduce_only):
        self.sym(s)
        if not reduce_only:
            self.rest[oid] = (s, float(qty), float(price))

    def cancel(self, oid):
        self.rest.pop(oid, None)

    def fill(self, oid, s, qty, price, reduce_only):
        """returns a dict describing the effect (kind, effective size, fee, realised)"""
        self.sym(s)
        self.rest.pop(oid, None)
        q0 = self.q[s]
        qty = float(qty)
        price = float(price)
        if reduce_only:
            if q0 == 0 or q0 * qty > 0:
                eff = 0.0
            else:
                eff = (1 if qty > 0 else -1) * min(abs(qty), abs(q0))
        else:
            eff = qty
        # sizes add up in decimal arithmetic (the stated contract of the framework's float helpers), so
        # that 0.3 - 0.1 - 0.2 is a closed position and not a 2.7e-17 one
        qsum = float(D(q0) + D(eff))
        fee = self.f * abs(eff) * price
        self.W -= fee
        realised = 0.0
        if eff == 0:
            kind = 'none'
        elif q0 == 0:
            kind = 'open'
            self.q[s] = eff
            self.e[s] = price
        elif q0 * eff > 0:
            kind = 'increase'
            self.e[s] = (abs(eff) * price + abs(q0) * self.e[s]) / (abs(eff) + abs(q0))
            self.q[s] = qsum
        else:
            sgn = 1 if q0 > 0 else -1
            closed = min(abs(eff), abs(q0))
            realised = (price - self.e[s]) * closed * sgn
            self.W += realised
            if qsum == 0:
                kind = 'close'
                self.q[s] = 0.0
                self.e[s] = None
            elif abs(eff) < abs(q0):
                kind = 'reduce'
                self.q[s] = qsum
            else:
                kind = 'flip'
                self.q[s] = qsum
                self.e[s] = price
        self.last = {'kind': kind, 'reduce_only': bool(reduce_only), 'oversize': abs(qty) > abs(q0) + 1e-12 * max(1.0, abs(q0)) and q0 != 0 and q0 * qty < 0,
                     'same_dir_ro': bool(reduce_only and q0 * qty > 0), 'ro_on_closed': bool(reduce_only and q0 == 0),
                     'eff': eff, 'qty': qty, 'price': price, 'fee': fee, 'realised': realised, 'q0': q0}
        return self.last


class CashAccount:
    """spot cash account.  Balances are floats combined through decimal addition of their shortest
    representations and rounded back to float after every operation - the stated contract of the
    framework's decimal helpers ("0.1 + 0.2 == 0.3")."""

    def __init__(self, balance, fee):
        self.quote = float(balance)
        self.f = float(fee)
        self.base = {}        # symbol -> float
        self.sums = {}        # (symbol, kind) -> float   resting sells per kind
        self.rest = {}        # oid -> (symbol, side, kind, qty(abs float), price)
        self.last = None

    @staticmethod
    def add(a, b):
        return float(D(a) + D(b))

    @staticmethod
    def sub(a, b):
        return float(D(a) - D(b))

    def sym(self, s):
        self.base.setdefault(s, 0.0)

    def reserved_quote(self):
        tot = 0.0
        for (s, side, kind, q, p) in self.rest.values():
            if side == 'buy':
                tot = self.add(tot, abs(q) * p)
        return tot

    def would_reject(self, s, side, kind, qty, price):
        """the stated rule; returns (reject?, needed, have, where) - needed/have as floats for reports, `where` is
        'exact' (needed equals have), 'near' (closer than 1e-9 relative, not equal) or 'far'"""
        self.sym(s)
        q = abs(float(qty))

        def where(need, have):
            if need == have:
                return 'exact'
            return 'near' if abs(need - have) <= D(1e-9) * max(D(1), abs(need)) else 'far'
        if side == 'buy':
            need = q * float(price)
            return self.sub(self.quote, need) < 0, need, self.quote, where(D(need), D(self.quote))
        # "a sell plus the already resting sells of its kind (the resting limit sells for a market sell)": the
        # resting sells are the orders that rest NOW - their exact decimal total, not a running float total that has
        # been rounded to a double after every earlier submission, cancellation and fill
        k = 'LIMIT' if kind == 'MARKET' else kind
        need = D(q)
        for (s2, side2, kind2, q2, p2) in self.rest.values():
            if s2 == s and side2 == 'sell' and kind2 == k:
                need += D(q2)
        return need > D(self.base[s]), float(need), self.base[s], where(need, D(self.base[s]))

    def submit(self, oid, s, side, kind, qty, price):
        self.sym(s)
        q = abs(float(qty))
        if side == 'buy':
            self.quote = self.sub(self.quote, q * float(price))
        else:
            if kind in ('LIMIT', 'STOP'):
                self.sums[(s, kind)] = self.add(self.sums.get((s, kind), 0.0), q)
        self.rest[oid] = (s, side, kind, q, float(price))

    def cancel(self, oid):
        r = self.rest.pop(oid, None)
        if r is None:
            return
        s, side, kind, q, p = r
        if side == 'buy':
            self.quote = self.add(self.quote, q * p)
        elif kind in ('LIMIT', 'STOP'):
            self.sums[(s, kind)] = self.sub(self.sums.get((s, kind), 0.0), q)

    def fill(self, oid, s, side, kind, qty, price):
        self.sym(s)
        r = self.rest.pop(oid, None)
        q = abs(float(qty))
        price = float(price)
        info = {'side': side, 'kind': kind, 'qty': q, 'price': price, 'clipped': False}
        if side == 'buy':
            self.base[s] = self.add(self.base[s], q * (1 - self.f))
        else:
            if kind in ('LIMIT', 'STOP') and r is not None:
                self.sums[(s, kind)] = self.sub(self.sums.get((s, kind), 0.0), q)
            sold = q
            if q > self.base[s]:
                sold = self.base[s]
                info['clipped'] = True
            self.quote = self.add(self.quote, (sold * price) * (1 - self.f))
            self.base[s] = self.sub(self.base[s], sold)
            info['sold'] = sold
        self.last = info
        return info

    def equity(self, marks):
        tot = self.add(self.quote, self.reserved_quote())
        for s, b in self.base.items():
            if marks.get(s) is not None:
                tot += b * marks[s]
        return float(tot)
