"""C18 - the dynamic array behaves like a growing list of rows (DESIGN 5/C18).
(a) operation runs against a RowList model; (b) in-situ shadowing of every DynamicNumpyArray that
simulated sessions create.  No fault dimension: there is no I/O or clock here (said plainly)."""
import copy

import numpy as np

from simlab import ctx as C, session as S, runner as R
from simlab.checklib import SessionCheck
from simlab.prng import Stream, run_seed
from .common import COMMON_REAL, COMMON_STUB


# ------------------------------------------------------------------------------- (a) operation runs
def gen_ops(seed):
    st = Stream(seed, 'c18')
    bucket = st.randint(1, 8, 'bucket')
    cols = st.choice([2, 6], 'cols')
    drop_at = None
    if st.chance(0.25, 'drop?'):
        drop_at = st.choice([4, 6, 8, 10, 16], 'drop')
    n = st.randint(1, 80, 'n')
    ops = []
    val = 0
    weights = [('append', 5), ('append_multiple', 2), ('get', 3), ('set', 1.5), ('slice', 3), ('set_slice', 1), ('delete', 1.5 if drop_at is None else 0),
               ('flush', 0.3), ('last', 1), ('past', 1), ('len', 1)]
    for i in range(n):
        s = st.sub(i)
        k = s.wchoice(weights, 'k')
        if k == 'append':
            val += 1
            ops.append(['append', val])
        elif k == 'append_multiple':
            m = s.choice([1, 2, bucket - 1, bucket, bucket + 1, 2 * bucket + 1, 3], 'm')
            m = max(1, m)
            if drop_at:
                m = min(m, drop_at // 2)   # a bulk append longer than half the limit has no defined meaning
            ops.append(['append_multiple', val + 1, m])
            val += m
        elif k == 'get':
            ops.append(['get', s.randint(-12, 12, 'i')])
        elif k == 'set':
            val += 1
            ops.append(['set', s.randint(-12, 12, 'i'), val])
        elif k == 'slice':
            a = s.choice([None, None, 0, 1, 2, 5, -1, -2, -3, -7], 'a')
            b = s.choice([None, None, 0, 1, 3, 6, 50, -1, -2, -4], 'b')
            ops.append(['slice', a, b])
        elif k == 'set_slice':
            a = s.choice([0, 1, 2, -1, -2, -3, -5], 'a')
            m = s.randint(1, 3, 'm')
            ops.append(['set_slice', a, m, val + 1])
            val += m
        elif k == 'delete':
            ops.append(['delete', s.randint(-6, 8, 'i')])
        elif k == 'flush':
            ops.append(['flush'])
        elif k == 'last':
            ops.append(['last'])
        elif k == 'past':
            ops.append(['past', s.randint(0, 8, 'p')])
        else:
            ops.append(['len'])
    return {'bucket': bucket, 'cols': cols, 'drop_at': drop_at, 'ops': ops}


def row(v, cols):
    return [float(v * 10 + j) for j in range(cols)]


def run_ops(case):
    """returns list of violations (dict) - first one ends the run"""
    from jesse.libs import DynamicNumpyArray
    bucket, cols, drop_at = case['bucket'], case['cols'], case['drop_at']
    arr = DynamicNumpyArray((bucket, cols), drop_at=drop_at) if drop_at else DynamicNumpyArray((bucket, cols))
    model = []          # full history when drop_at, else the list
    counters = {'ops': 0, 'bucket_crossings': 0, 'neg_index_ops': 0, 'neg_slice_ops': 0}

    def visible():
        if drop_at:
            return model[len(model) - len(arr):] if len(arr) <= len(model) else None
        return model

    def viol(clause, fp, detail):
        return [{'property': 'C18', 'clause': clause, 'fingerprint': fp, 'detail': detail, 'seq': counters['ops'], 'horizon': -1}]

    for idx, op in enumerate(case['ops']):
        counters['ops'] += 1
        k = op[0]
        vis = visible()
        n = len(vis) if vis is not None else 0
        tag = f"drop={int(bool(drop_at))}"
        try:
            if k == 'append':
                arr.append(np.array(row(op[1], cols)))
                model.append(row(op[1], cols))
                if len(model) % bucket == 0:
                    counters['bucket_crossings'] += 1
            elif k == 'append_multiple':
                rows = [row(op[1] + j, cols) for j in range(op[2])]
                arr.append_multiple(np.array(rows))
                model.extend(rows)
                counters['bucket_crossings'] += 1 if (len(model) // bucket) != ((len(model) - op[2]) // bucket) else 0
            elif k == 'get':
                i = op[1]
                if i < 0:
                    counters['neg_index_ops'] += 1
                valid = -n <= i < n
                try:
                    got = arr[i]
                    if not valid:
                        return viol('get', f'C18|index-read-outside-list-did-not-raise|neg={int(i < 0)}|{tag}', {'op': op, 'len': n}), counters
                    if got.tolist() != vis[i]:
                        return viol('get', f'C18|index-read-wrong-row|neg={int(i < 0)}|{tag}', {'op': op, 'got': got.tolist(), 'want': vis[i]}), counters
                except IndexError:
                    if valid:
                        return viol('get', f'C18|valid-index-read-raised|neg={int(i < 0)}|{tag}', {'op': op, 'len': n}), counters
            elif k == 'set':
                i = op[1]
                valid = -n <= i < n
                try:
                    arr[i] = np.array(row(op[2], cols))
                    if not valid:
                        return viol('set', f'C18|index-write-outside-list-did-not-raise|neg={int(i < 0)}|{tag}', {'op': op, 'len': n}), counters
                    vis[i] = row(op[2], cols)
                    if drop_at:
                        model[len(model) - n + (i % n)] = row(op[2], cols)
                except IndexError:
                    if valid:
                        return viol('set', f'C18|valid-index-write-raised|neg={int(i < 0)}|{tag}', {'op': op, 'len': n}), counters
            elif k == 'slice':
                a, b = op[1], op[2]
                if (a is not None and a < 0) or (b is not None and b < 0):
                    counters['neg_slice_ops'] += 1
                want = vis[a:b]
                got = arr[a:b]
                gl = np.asarray(got).tolist()
                if gl != want:
                    return viol('slice', f'C18|slice-read-differs|neg-start={int(a is not None and a < 0)}|neg-stop={int(b is not None and b < 0)}|{tag}',
                                {'op': op, 'len': n, 'got': gl[:4], 'got_len': len(gl), 'want_len': len(want)}), counters
            elif k == 'set_slice':
                a, m = op[1], op[2]
                # equal-length slice assignment: vis[a:a+m] must lie inside the list
                start = a if a >= 0 else n + a
                if start < 0 or start + m > n or n == 0:
                    continue
                stop = start + m
                rows = [row(op[3] + j, cols) for j in range(m)]
                # express the slice the way callers do: negative start with open stop when it ends at the end
                if a < 0 and stop == n:
                    arr[a:] = np.array(rows)
                    counters['neg_slice_ops'] += 1
                else:
                    arr[a:(stop if a >= 0 else stop - n or None)] = np.array(rows)
                for j in range(m):
                    vis[start + j] = rows[j]
                    if drop_at:
                        model[len(model) - n + start + j] = rows[j]
            elif k == 'delete':
                i = op[1]
                valid = -n <= i < n
                if not valid:
                    continue
                arr.delete(i, axis=0)
                del vis[i]
            elif k == 'flush':
                arr.flush()
                model.clear()
            elif k == 'last':
                try:
                    got = arr.get_last_item()
                    if n == 0:
                        return viol('last', f'C18|last-item-of-empty-did-not-raise|{tag}', {}), counters
                    if got.tolist() != vis[-1]:
                        return viol('last', f'C18|last-item-wrong|{tag}', {'got': got.tolist(), 'want': vis[-1]}), counters
                except IndexError:
                    if n > 0:
                        return viol('last', f'C18|last-item-raised|{tag}', {}), counters
            elif k == 'past':
                p = op[1]
                try:
                    got = arr.get_past_item(p)
                    if p >= n:
                        return viol('past', f'C18|past-item-outside-did-not-raise|{tag}', {'p': p, 'len': n}), counters
                    if got.tolist() != vis[n - 1 - p]:
                        return viol('past', f'C18|past-item-wrong|{tag}', {'p': p}), counters
                except IndexError:
                    if p < n:
                        return viol('past', f'C18|past-item-raised|{tag}', {'p': p, 'len': n}), counters
            elif k == 'len':
                pass
        except Exception as e:
            if type(e).__name__ == 'IndexError' and k in ('get', 'set', 'last', 'past'):
                raise
            return viol('raised', f'C18|{k}-raised-{type(e).__name__}|{tag}', {'op': op, 'len': n, 'exc': repr(e)}), counters
        # ---- after every operation: length and full visible content
        vis = visible()
        if drop_at:
            if len(arr) > drop_at:
                return viol('drop', 'C18|length-exceeds-drop-limit', {'len': len(arr), 'drop_at': drop_at, 'after': op}), counters
            if vis is None or len(arr) > len(model):
                return viol('drop', 'C18|longer-than-history', {'len': len(arr)}), counters
        elif len(arr) != len(model):
            return viol('len', f'C18|length-differs|after={k}', {'got': len(arr), 'want': len(model), 'op': op}), counters
        content = arr.array[:len(arr)].tolist()
        if content != vis:
            return viol('content', f'C18|content-differs|after={k}|{tag}', {'op': op, 'got_tail': content[-3:], 'want_tail': vis[-3:], 'len': len(arr)}), counters
    return [], counters


# ------------------------------------------------------------------------------- (b) in-situ shadowing
class ShadowMonitor:
    """every DynamicNumpyArray created during the session carries a shadow list; compared after mutations"""

    def session_begin(self, c, spec, full_candles):
        from jesse.libs import DynamicNumpyArray as D
        self.D = D
        self.orig = {k: getattr(D, k) for k in ('__init__', 'append', 'append_multiple', '__setitem__', 'delete', 'flush')}
        mon = self
        self.c = c
        self.n_arrays = 0

        def init(a, shape, drop_at=None):
            mon.orig['__init__'](a, shape, drop_at)
            a._shadow = []
            mon.n_arrays += 1

        def append(a, item):
            mon.orig['append'](a, item)
            if hasattr(a, '_shadow') and a.drop_at is None:
                a._shadow.append(np.array(item, dtype=float).tolist())
                mon.check(a, 'append', tail=1)

        def append_multiple(a, items):
            mon.orig['append_multiple'](a, items)
            if hasattr(a, '_shadow') and a.drop_at is None:
                a._shadow.extend(np.array(items, dtype=float).tolist())
                mon.check(a, 'append_multiple', tail=len(items))

        def setitem(a, i, item):
            mon.orig['__setitem__'](a, i, item)
            if hasattr(a, '_shadow') and a.drop_at is None:
                try:
                    if isinstance(i, slice):
                        vals = np.array(item, dtype=float).tolist()
                        n = len(a._shadow)
                        start, stop, _ = slice(i.start, i.stop if i.stop is not None else None).indices(n)
                        if i.stop is None and i.start is not None:
                            stop = start + len(vals)
                        a._shadow[start:stop] = vals
                        c.count('c18_insitu_slice_assign')
                        mon.check(a, 'set_slice', tail=len(vals) + 1)
                    else:
                        a._shadow[i] = np.array(item, dtype=float).tolist()
                        mon.check(a, 'set', tail=abs(i) + 1 if i < 0 else None)
                except IndexError:
                    c.violate('C18', 'insitu', 'C18|insitu|assignment-accepted-outside-list', {'i': repr(i)})

        def delete(a, index, axis=None):
            mon.orig['delete'](a, index, axis)
            if hasattr(a, '_shadow') and a.drop_at is None:
                del a._shadow[index]
                c.count('c18_insitu_deletes')
                mon.check(a, 'delete', full=True)

        def flush(a):
            mon.orig['flush'](a)
            if hasattr(a, '_shadow'):
                a._shadow = []

        D.__init__ = init
        D.append = append
        D.append_multiple = append_multiple
        D.__setitem__ = setitem
        D.delete = delete
        D.flush = flush

    def check(self, a, after, tail=None, full=False):
        c = self.c
        c.count('c18_insitu_checks')
        if len(a) != len(a._shadow):
            c.violate('C18', 'insitu', f'C18|insitu|length-differs|after={after}', {'got': len(a), 'want': len(a._shadow), 'shape': list(a.shape)})
            a._shadow = a.array[:len(a)].tolist()
            return
        n = len(a)
        lo = 0 if (full or tail is None) else max(0, n - tail - 1)
        if a.array[lo:n].tolist() != a._shadow[lo:n]:
            c.violate('C18', 'insitu', f'C18|insitu|content-differs|after={after}', {'shape': list(a.shape), 'len': n})
            a._shadow = a.array[:n].tolist()

    def finish(self, c):
        c.count('c18_insitu_arrays', self.n_arrays)

    def session_end(self, c, spec, out):
        for k, v in self.orig.items():
            setattr(self.D, k, v)


class ArrayCheck(SessionCheck):
    def __init__(self, *a, ops_tiers=None, **kw):
        super().__init__(*a, **kw)
        self.ops_tiers = ops_tiers

    def args_for(self, tier, verif_seed, runs=None):
        out = super().args_for(tier, verif_seed, runs)
        n = self.ops_tiers[tier] if runs is None else runs * 10
        out += [{'k': 10_000_000 + k, 'seed': run_seed('C18/ops', verif_seed, k), 'mode': 'ops'} for k in range(n)]
        return out

    def run_one(self, arg):
        if arg.get('mode') != 'ops':
            return super().run_one(arg)
        case = gen_ops(arg['seed'])
        return self.result(case, arg)

    def result(self, case, arg):
        vs, counters = run_ops(case)
        kinds = '.'.join(o[0][:2] for o in case['ops'])[:120]
        res = {'seed': arg.get('seed'), 'k': arg.get('k', -1), 'status': 'ok', 'violations': R.jsonable(vs), 'counters': counters,
               'minutes': 0, 'events': len(case['ops']), 'sig': f"{case['bucket']}/{case['cols']}/{case['drop_at']}/{kinds}",
               'digest': C.digest_trace([tuple(map(repr, o)) for o in case['ops']]) + str(len(vs)),
               'nontrivial': counters.get('bucket_crossings', 0) > 0}
        if vs:
            res['replay'] = {'kind': 'array-ops', 'case': R.jsonable(case)}
        if arg.get('want_sample'):
            res['sample'] = {'kind': 'array-ops', 'bucket': case['bucket'], 'cols': case['cols'], 'drop_at': case['drop_at'], 'ops': case['ops'][:20]}
        return res

    def replay(self, payload):
        if payload.get('kind') != 'array-ops':
            return super().replay(payload)
        return self.result(payload['case'], {})

    def minimise(self, payload, test, violation, budget_s):
        if payload.get('kind') != 'array-ops':
            return super().minimise(payload, test, violation, budget_s)
        import time
        from simlab import shrink
        fp = violation['fingerprint']
        deadline = time.monotonic() + budget_s

        def fails(ops):
            p = {'kind': 'array-ops', 'case': dict(payload['case'], ops=ops)}
            r = self.replay(p)
            return any(v['fingerprint'] == fp for v in r['violations'])
        ops = shrink.ddmin_list(payload['case']['ops'], fails, deadline)
        out = copy.deepcopy(payload)
        out['case']['ops'] = ops
        out['minimised'] = [f"ops {len(payload['case']['ops'])}->{len(ops)}"]
        return out


def profile(st):
    return {'minutes': (60, 600), 'p_data_route': 0.3,
            'program': {'p_enter': st.choice([0.3, 0.8], 'pe'), 'entry_styles': [['ladder', 'mixed'], ['market', 'limit', 'stop', 'ladder']][st.randint(0, 1, 'es')],
                        'p_keep_entry': st.choice([0.0, 0.6], 'pk')}}


CHECK = ArrayCheck(
    prop='C18', profile=profile,
    monitors=lambda: [ShadowMonitor()],
    tiers={'quick': 300, 'thorough': 10_000}, ops_tiers={'quick': 20_000, 'thorough': 1_000_000},
    nontrivial=lambda r: r['counters'].get('c18_insitu_deletes', 0) + r['counters'].get('c18_insitu_slice_assign', 0) > 0,
    rule=('(a) operation runs: bucket sizes 1-8, row shapes (n,2)/(n,6), with and without drop-oldest, 1-80 operations from {append, '
          'append_multiple (shorter/equal/longer than a bucket), index read/write with positive and negative indices, slice read with '
          'positive/negative/None bounds, equal-length slice assignment, delete (positive and negative index), flush, get_last_item, '
          'get_past_item, len}; after each the result and the full visible content must equal a python list of rows (with drop-oldest: '
          'the most recent len rows of the history, len <= limit) and nothing valid on the list may raise. (b) in situ: every '
          'DynamicNumpyArray created inside simulated sessions (candle store, exchange order tables, trade tables) carries a shadow list '
          'compared after every mutation. non-trivial (a) = crossed a bucket boundary, (b) = a delete or slice assignment happened. '
          'Dense sampling of short sequences over small buckets; no bounded-exhaustive claim. No fault dimension (no I/O, no clock).'),
    assumptions=['with the drop-oldest option only "most recent len rows, len <= limit" is required (the statement fixes no drop schedule)'],
    real_components=['jesse.libs.DynamicNumpyArray'] + COMMON_REAL, stub_components=COMMON_STUB,
    fault_kinds=[], probes=['ops', 'bucket_crossings', 'neg_index_ops', 'neg_slice_ops', 'c18_insitu_checks', 'c18_insitu_deletes', 'c18_insitu_slice_assign', 'c18_insitu_arrays'],
)
