"""C12 - fast mode reproduces the normal simulation when fills are unambiguous (DESIGN 5/C12)."""
from simlab.pairs import SchedulerSwapCheck
from .common import COMMON_REAL, COMMON_STUB


def profile(st):
    return {'n_routes': 1, 'allow_data_symbol': False, 'minutes': (120, 1500),
            'trading_tfs': ['1m', '3m', '5m', '15m', '30m', '1h'], 'data_tfs': ['5m', '15m', '30m', '45m', '1h', '4h'], 'p_data_route': 0.5,
            'p_small_lattice': 0.0, 'p_warmup': 0.3,
            'mode': st.choice(['cross', 'cross', 'isolated'], 'mode'),
            'program': {'p_enter': st.choice([0.05, 0.15, 0.4, 0.8], 'pe'),
                        'entry_styles': st.choice([['market'], ['market', 'limit', 'stop'], ['limit', 'stop']], 'es'),
                        'entry_dist': st.choice([1, 3, 10], 'edist'),
                        'sl_rows': st.choice([0, 1, 1], 'sl'), 'tp_rows': st.choice([0, 1, 1], 'tp'),
                        'exit_dist': st.choice([(40, 120), (80, 300), (200, 600)], 'ed'),
                        'wrong_side_p': st.choice([0.0, 0.15], 'wsp'), 'near_band_p': 0.0, 'exit_in_go': st.chance(0.5, 'eig'), 'p_modify': st.choice([0.0, 0.02], 'pm'),
                        'p_liquidate': st.choice([0.0, 0.01], 'pl'), 'p_dup': 0.0, 'p_keep_entry': st.choice([0.0, 0.5], 'pk'),
                        'size_frac': st.choice([0.05, 0.2], 'sf'),
                        'p_hook_market': st.choice([0.0, 0.5], 'phm'),
                        'ohlc_entries': st.chance(0.5, 'ohlc'), 'data_gate': st.chance(0.6, 'dgate')}}


CHECK = SchedulerSwapCheck(
    profile=profile,
    tiers={'quick': 800, 'thorough': 50_000},
    rule=('one seed -> one single-symbol session (trading tf 1m-1h, optional larger data routes, spot and futures, exits placed '
          '40-600 ticks away) executed under the normal and under the fast simulator in two forked grandchildren with identical keyed '
          'decisions. The precondition is evaluated on the NORMAL run (at most one LIMIT/STOP fill per aligned trading-candle span, no '
          'liquidation); pairs failing it are counted as vacuous. Otherwise the executed orders (side, type, qty, price, reduce-only, '
          'fill minute - exact), trade counts, fees, net profit and final balances must agree. non-trivial = precondition true and >=1 fill'),
    assumptions=['runs that end in the same legal rejection under both simulators are compared up to the rejection'],
    real_components=COMMON_REAL, stub_components=COMMON_STUB,
    fault_kinds=['precondition_true'],
    probes=['precondition_true', 'vacuous_precondition_false', 'vacuous_liquidation', 'fills_normal', 'tf_1m', 'tf_3m', 'tf_5m', 'tf_15m', 'tf_30m', 'tf_1h'],
)
