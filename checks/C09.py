"""C09 - isolated-margin liquidation happens exactly at the liquidation price (DESIGN 5/C09).
Two-pass runs with adaptive tails: pass 1 learns a liquidation price, pass 2 replaces the future
from that minute on by candles that touch it exactly, miss it by one ulp / one tick, or gap over it."""
import math

import numpy as np

from simlab import session as S, runner as R
from simlab.checklib import SessionCheck
from simlab.mon_orders import Registry
from simlab.mon_misc import LiquidationMonitor
from simlab.prng import Stream
from .common import COMMON_REAL, COMMON_STUB


def profile(st):
    iso = st.chance(0.8, 'iso')
    return {
        'type': 'futures' if iso else st.choice(['futures', 'spot'], 'ty'),
        'mode': 'isolated' if iso else 'cross',
        'leverage': st.choice([1, 2, 3, 5, 10, 20, 50, 100, 125], 'lev'),
        'minutes': (60, 500), 'p_data_route': 0.15,
        'program': {'p_enter': st.choice([0.3, 0.8], 'pe'), 'size_frac': st.choice([0.2, 0.45, 0.8], 'sf'),
                    'sl_rows': st.choice([0, 0, 1], 'sl'), 'tp_rows': st.choice([0, 1], 'tp'),
                    'exit_dist': st.choice([(5, 40), (20, 60), (1, 3)], 'ed'),
                    'entry_styles': st.choice([['market'], ['market', 'ladder'], ['limit', 'stop', 'mixed']], 'es'),
                    'p_liquidate': 0.0, 'p_modify': st.choice([0.0, 0.02], 'pm')},
    }


def make_tail(fc, spec, ev, variant):
    i, sym, liq, entry, side, bank, clen = ev
    w = spec['warmup']
    arr = fc[sym].copy()
    j = w + i + clen           # first row of the replaced future
    if j >= len(arr):
        return None
    pc = float(arr[j - 1, 2])
    tick = spec['symbols'][sym]['tick']
    up = side == 'short'      # the losing direction
    if (not up and pc <= liq) or (up and pc >= liq):
        return None
    if variant == 'touch':
        ext = liq
    elif variant == 'miss_ulp':
        ext = math.nextafter(liq, math.inf if not up else -math.inf)
    elif variant == 'miss_tick':
        ext = liq + tick if not up else liq - tick
    elif variant == 'pass':
        ext = liq - 3 * tick if not up else liq + 3 * tick
    else:  # gap_over
        ext = None
    if ext is not None:
        if ext <= 0:
            return None
        cl = ext + (pc - ext) * 0.5
        row = [arr[j, 0], pc, cl, max(pc, cl), min(ext, cl), 10.0] if not up else [arr[j, 0], pc, cl, max(ext, cl), min(pc, cl), 10.0]
    else:
        o = liq * 0.99 if not up else liq * 1.01
        if o <= 0:
            return None
        row = [arr[j, 0], o, o, o, o, 10.0]
        cl = o
    arr[j] = row
    for k in range(j + 1, len(arr)):
        arr[k, 1:5] = cl
        arr[k, 5] = 0.0
    out = dict(fc)
    out[sym] = arr
    return out


class LiqCheck(SessionCheck):
    def run_one(self, arg):
        spec = S.gen_spec(arg['seed'], self.profile_for(arg['seed']))
        fc = S.build_candles(spec)
        c, out = R.execute_session(spec, fc, self.monitors())
        res = self._finish(c, out, spec, fc)
        res['k'] = arg['k']
        events = list(c.scratch.get('liq_events') or [])
        st = Stream(arg['seed'], 'tail')
        if events and out['status'] in ('ok', 'legal-rejection') and not res['violations']:
            ev = events[st.randint(0, len(events) - 1, 'ev')]
            variant = st.choice(['touch', 'touch', 'miss_ulp', 'miss_tick', 'pass', 'gap_over'], 'variant')
            fc2 = make_tail(fc, spec, ev, variant)
            if fc2 is not None:
                c2, out2 = R.execute_session(spec, fc2, self.monitors())
                res2 = self._finish(c2, out2, spec, fc2)
                for k, v in res2['counters'].items():
                    res['counters'][k] = res['counters'].get(k, 0) + v
                res['counters']['tail_' + variant] = res['counters'].get('tail_' + variant, 0) + 1
                res['minutes'] += res2['minutes']
                res['events'] += res2['events']
                res['sig'] = res['sig'] + '+' + res2['sig']
                res['digest'] = res['digest'] + res2['digest']
                if res2['violations']:
                    res['violations'] = res2['violations']
                    res['replay'] = res2.get('replay')
                res['nontrivial'] = bool(self._nontrivial(res))
        if arg.get('want_sample'):
            res['sample'] = {'spec': R.jsonable(R.spec_summary(spec)), 'status': out['status'], 'liq_events': R.jsonable(events[:3])}
        return res


CHECK = LiqCheck(
    prop='C09', profile=profile,
    monitors=lambda: [Registry(), LiquidationMonitor(('C09',))],
    tiers={'quick': 1000, 'thorough': 40_000},
    nontrivial=lambda r: r['counters'].get('c09_eligible', 0) + r['counters'].get('c09_within_ulps', 0) + r['counters'].get('c09_touch_exact', 0) > 0,
    rule=('two-pass runs: pass 1 = a seeded session (80% isolated futures, leverage 1-125, long/short, averaged entries, with and '
          'without protective stops, both simulators); the monitor records the liquidation price of every open isolated position at '
          'every liquidation check. Pass 2 re-runs the same seed with the future after one such minute replaced by candles that touch '
          'the liquidation price exactly, miss it by one ulp / one tick, pass through it, or gap over it. Oracle at the liquidation-check '
          'seam: iff the position is open, isolated and the harness-computed range of the minute/chunk contains jesse\'s liquidation price, '
          'the position is closed by exactly one new reduce-only MARKET order at e*(1-+1/L), the counter grows by one, every resting order '
          'is cancelled and the wallet loses initial margin + fee; otherwise nothing of that happens; liquidation price strictly between '
          'entry and bankruptcy for L>1; none in cross/spot. non-trivial = >=1 eligible or within-ulps check'),
    assumptions=['the 0.4% maintenance figure is read from jesse, only its placement is constrained'],
    real_components=COMMON_REAL, stub_components=COMMON_STUB,
    fault_kinds=['tail_touch', 'tail_miss_ulp', 'tail_miss_tick', 'tail_pass', 'tail_gap_over'],
    probes=['c09_open_isolated_checks', 'c09_eligible', 'c09_touch_exact', 'c09_within_ulps', 'c09_liquidations_checked'],
)
