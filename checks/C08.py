"""C08 - fills inside one minute follow a single continuous price path (DESIGN 5/C08)."""
from simlab.checklib import SessionCheck
from simlab.mon_orders import Registry, MatchMonitor
from .common import COMMON_REAL, COMMON_STUB


def profile(st):
    return {
        'fast': False,
        'minutes': (40, 500),
        'p_small_lattice': 0.6,
        'p_data_route': 0.1,
        'trading_tfs': ['1m', '1m', '1m', '3m', '5m'],
        'program': {'p_enter': st.choice([0.5, 0.8], 'pe'),
                    'entry_styles': st.choice([['ladder', 'mixed'], ['limit', 'stop', 'mixed'], ['market', 'ladder']], 'es'),
                    'sl_rows': st.choice([1, 2, 3], 'sl'), 'tp_rows': st.choice([1, 2, 3], 'tp'),
                    'exit_dist': st.choice([(1, 1), (1, 2), (1, 4)], 'ed'),
                    'p_keep_entry': st.choice([0.0, 0.5, 0.9], 'pk'),
                    'p_exits_on_open': 1.0,
                    'resize_mode': st.choice(['always', 'random', 'never'], 'rm')},
    }


CHECK = SessionCheck(
    prop='C08',
    profile=profile,
    monitors=lambda: [Registry(), MatchMonitor(('C08',))],
    tiers={'quick': 2000, 'thorough': 50_000},
    nontrivial=lambda r: r['counters'].get('minutes_with_2+_fills', 0) > 0,
    rule=('one seed -> one step-simulator session on a small price lattice (5-9 levels for most runs) with ladders and '
          'SL/TP rows 1-4 ticks away, reaction orders placed by hooks; a PathMatcher (polyline O-L-H-C / O-H-L-C from '
          'the harness copy of the input) keeps a cursor per matching call: every fill must be reachable at/after the '
          'cursor and no other ACTIVE order strictly earlier; the `later` candle returned by the real split_candle must '
          'equal the remainder of the path; every split_candle call is checked for the stated algebra. non-trivial = '
          'a minute with >=2 fills; distinct = trace signature. Sampling, not exhaustive enumeration of the lattice.'),
    assumptions=['ties (same path parameter) may fill in any order'],
    real_components=COMMON_REAL, stub_components=COMMON_STUB,
    fault_kinds=['minutes_with_2+_fills', 'reaction_order_filled_same_minute'],
    probes=['split_ride_along_calls', 'resting_fills', 'split_calls', 'minutes_with_2+_fills', 'reaction_order_filled_same_minute'],
)
