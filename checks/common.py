"""shared bits of the check definitions"""
COMMON_REAL = ['research.backtest', 'config', 'router', 'store (all states)', 'step + fast simulators',
               'services.candle', 'Order', 'Position', 'Spot/FuturesExchange', 'Sandbox', 'API', 'Broker',
               'Strategy', 'ClosedTrades', 'metrics', 'report', 'DynamicNumpyArray', 'helpers', 'logger (memory)']
COMMON_STUB = ['uuid ids (counter)', 'wall clock / sleep (virtual)', 'no DB / Redis / Timeloop threads']
