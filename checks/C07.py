"""C07 - every timeframe is the exact aggregation of the one-minute candles (DESIGN 5/C07)."""
from simlab.checklib import SessionCheck
from simlab.mon_candles import CandleMonitor
from .common import COMMON_REAL, COMMON_STUB





def profile(st):
    big = st.chance(0.25, 'big')
    return {
        'trading_tfs': ['1m', '1m', '3m', '5m', '15m', '30m', '1h'] if not big else ['1m', '15m', '1h', '4h'],
        'data_tfs': ['3m', '5m', '15m', '30m', '45m', '1h', '2h', '4h', '1D'] if big else ['3m', '5m', '15m', '1h'],
        'p_data_route': 0.7,
        'minutes': (30, 700) if not big else (1000, 3200),
        'p_warmup': 0.5,
        'p_fast_ragged': 0.15,
        'program': {'p_enter': st.choice([0.1, 0.3, 0.8], 'pe')},
    }


CHECK = SessionCheck(
    prop='C07',
    profile=profile,
    monitors=lambda: [CandleMonitor(('C07',))],
    tiers={'quick': 1200, 'thorough': 25_000},
    nontrivial=lambda r: r['counters'].get('c07_forming_reads', 0) > 0,
    rule=('one seed -> one backtest session (1-2 symbols, trading + data routes 1m..1D, warm-up on/off, step or fast '
          'simulator, length not a multiple of the timeframes) with a seeded strategy program; at every strategy hook '
          '(incl. hooks fired mid-minute by fills), in terminate() and after the run every readable (symbol,timeframe) '
          'series is compared with the plain-python aggregation of the stored 1m candles and the stored 1m candles '
          'with the harness copy of the input (+documented open normalisation). non-trivial = at least one read of a '
          'forming higher-timeframe candle; distinct = distinct per-minute event-kind signature of the whole trace'),
    assumptions=['session start and warm-up length aligned to every route timeframe (stated in the property)',
                 'partial 1m candle at a mid-minute hook only required to lie inside its minute (not defined by the statement)',
                 'the candle-generation helper _get_generated_candles is compared on the stored 1m candles after the run (ride-along)'],
    real_components=COMMON_REAL, stub_components=COMMON_STUB,
    fault_kinds=['c07_mid_minute_reads'],
    probes=['c07_forming_reads', 'c07_tf_reads', 'c07_mid_minute_reads', 'c07_read_raised', 'c07_helper_checks'],
)
