"""C19 - DNA decoding and hyperparameter exposure/precedence (DESIGN 5/C19, scoped)."""
from simlab.checklib import SessionCheck
from simlab.mon_orders import Registry
from simlab.mon_misc import HpMonitor
from .common import COMMON_REAL, COMMON_STUB


def profile(st):
    return {'minutes': (20, 200), 'p_data_route': 0.1, 'hp': True, 'n_routes': st.choice([1, 2, 2], 'nr'),
            'program': {'p_enter': 0.3}}


CHECK = SessionCheck(
    prop='C19', profile=profile,
    monitors=lambda: [Registry(), HpMonitor(('C19',))],
    tiers={'quick': 1500, 'thorough': 60_000},
    nontrivial=lambda r: r['counters'].get('c19_mode_dna', 0) + r['counters'].get('c19_mode_explicit', 0) + r['counters'].get('c19_mode_defaults', 0) > 0,
    rule=('one seed -> one session with 1-2 routes; per route a hyperparameter supply mode (none / declared defaults / dna() / '
          'explicit dict / explicit + dna) and 1-5 declarations (int/float, negative and fractional bounds, end letters over-sampled); '
          'at every hook self.hp must equal the reference value for that route under explicit > dna() > defaults, which also catches '
          'leakage from the other route; every drawn DNA string is decoded by jesse and by the reference map and compared (range, type, '
          'end letters, value). non-trivial = a route with non-empty expected hp; decode half is sampling of a pure map (scoped claim)'),
    assumptions=['explicit hyperparameters are exposed to every route of the session'],
    real_components=COMMON_REAL, stub_components=COMMON_STUB,
    fault_kinds=[], probes=['c19_hp_reads', 'c19_genes_decoded', 'c19_mode_none', 'c19_mode_defaults', 'c19_mode_dna', 'c19_mode_explicit'],
)
