"""C11 - research.backtest is a pure, repeatable function of its arguments (DESIGN 5/C11).
One child runs a HISTORY of sessions (some aborted by injected faults), then the probe call twice;
the probe is also executed in a fresh forked process with no history.  Needs production mode."""
import copy

import numpy as np

from simlab import ctx as C, session as S, runner as R, farm
from simlab.checklib import BaseCheck
from simlab.prng import Stream, H, run_seed
from simlab.pairs import first_diff, _fix_spec, CandleDigestMonitor
from .common import COMMON_REAL, COMMON_STUB

HOOKS = ('before', 'after', 'update_position', 'on_open_position', 'should_long', 'go_long', 'on_reduced_position', 'on_close_position')


def deep_equal(a, b):
    if isinstance(a, np.ndarray) or isinstance(b, np.ndarray):
        return isinstance(a, np.ndarray) and isinstance(b, np.ndarray) and a.shape == b.shape and bool(np.array_equal(a, b, equal_nan=True))
    if isinstance(a, dict):
        return isinstance(b, dict) and list(a.keys()) == list(b.keys()) and all(deep_equal(a[k], b[k]) for k in a)
    if isinstance(a, (list, tuple)):
        return type(a) is type(b) and len(a) == len(b) and all(deep_equal(x, y) for x, y in zip(a, b))
    return a is b or a == b or (isinstance(a, float) and isinstance(b, float) and a != a and b != b)


def norm_result(res):
    if res is None:
        return None
    out = {}
    for k, v in res.items():
        if isinstance(v, dict):
            out[k] = {kk: C.fnum(vv) if isinstance(vv, (int, float, np.floating, np.integer)) and not isinstance(vv, bool) else repr(vv) for kk, vv in v.items()}
        else:
            out[k] = repr(v)
    return out


def probe_profile(st):
    return {'minutes': (60, 400), 'p_data_route': 0.3, 'p_warmup': 0.3, 'hp': st.chance(0.4, 'hp'), 'hp_partial': True,
            'program': {'p_enter': st.choice([0.3, 0.8], 'pe')}}


def earlier_profile(st, probe):
    pf = {'minutes': (30, 300), 'p_data_route': 0.3, 'p_warmup': 0.4, 'hp': st.chance(0.3, 'hp'), 'hp_partial': True,
          'program': {'p_enter': st.choice([0.3, 0.8], 'pe')}}
    # the exchange name: same as the probe's (most interesting for cached configuration), or another one
    same_name = st.chance(0.6, 'same_name')
    typ = st.choice(['futures', 'spot'], 'type')
    pf['type'] = typ
    if same_name:
        pf['exchange'] = probe['exchange']
    else:
        pf['exchange'] = st.choice(['Other Exchange', 'Sandbox', 'Bybit USDT Perpetual'], 'name')
    # the same calendar span as the probe (other prices): anything memoised per (exchange, symbol, timeframe, timestamp)
    # is then looked up again by the probe
    if st.chance(0.5, 'same_span'):
        pf['start_ts'] = probe['start_ts']
        if probe['warmup'] > 0:
            pf['p_warmup'] = 0.9
    return pf


class Slice:
    """collects per-session slices of the shared trace + argument guards"""

    def __init__(self):
        self.sessions = []
        self.kept = []      # (argument objects, copies taken before the call) of every session of the history

    def session_begin(self, c, spec, full_candles):
        self.start = len(c.trace)
        self.args_before = copy.deepcopy(c.scratch['args'])
        self.hp_before = copy.deepcopy(spec.get('hyperparameters'))
        self.kept.append((c.scratch['args'], self.args_before))

    @staticmethod
    def compare(before, now):
        mutated = []
        names = ('config', 'routes', 'data_routes', 'candles', 'warmup_candles')
        for n, a, b in zip(names, before, now):
            if n == 'routes':
                a = [{k: v for k, v in r.items()} for r in a]
                b = [{k: v for k, v in r.items()} for r in b]
            if not deep_equal(a, b):
                mutated.append(n)
        return mutated

    def late_check(self):
        """the caller still holds the objects it passed to earlier calls: none of them may have been changed by a
        LATER call either"""
        for i, (objs, before) in enumerate(self.kept):
            self.sessions[i]['late_mutated'] = self.compare(before, objs)

    def session_end(self, c, spec, out):
        args = c.scratch['args']
        mutated = self.compare(self.args_before, args)
        if not deep_equal(self.hp_before, spec.get('hyperparameters')):
            mutated.append('hyperparameters')
        self.sessions.append({'trace': c.trace[self.start:], 'status': out['status'], 'exc': out.get('exc'),
                              'result': norm_result(out.get('result')), 'mutated': mutated, 'exc_type': out.get('exc_type'),
                              'where': out.get('where'), 'tb': out.get('tb')})


def run_sequence(arg):
    """executes a list of (spec, label) in THIS process (one child = one history)"""
    specs = arg
    sl = Slice()
    c = C.RunCtx(specs[0][0], None, [sl, CandleDigestMonitor(full_first=True)])
    c.scratch['observe_env'] = True
    C.set_current(c)
    try:
        for spec, label in specs:
            fc = S.build_candles(spec)
            c.decider = C.Decider(Stream(spec['seed'], 'dec'))
            c.id_counter = 0          # ids are random uuids in reality: not part of the comparison
            c.horizon = {}
            c.max_horizon = -1
            # the second probe call re-uses the caller's argument OBJECTS of the first one in half of the histories
            reuse = c.scratch['args'] if (label == 'p2' and spec.get('_reuse_args')) else None
            S.run_backtest(c, spec, fc, label, args=reuse)
        sl.late_check()
    finally:
        C.set_current(None)
    return {'sessions': sl.sessions, 'counters': dict(c.counters)}


def strip(trace):
    # drop the session markers (labels differ), keep everything else bit for bit
    return [e for e in trace if e[0] not in ('session_begin', 'session_end')]


class HistoryCheck(BaseCheck):
    prop = 'C11'

    def __init__(self, tiers, **kw):
        self.tiers = tiers
        for k, v in kw.items():
            setattr(self, k, v)

    def make(self, seed):
        st = Stream(seed, 'hist')
        probe = S.gen_spec(H(seed, 'probe') & ((1 << 60) - 1), probe_profile(st.sub('pp')))
        probe['_reuse_args'] = st.chance(0.5, 'reuse_args')
        n = st.wchoice([(0, 0.1), (1, 0.35), (2, 0.3), (3, 0.15), (4, 0.1)], 'n')
        earlier = []
        for j in range(n):
            s = st.sub('e', j)
            sp = S.gen_spec(H(seed, 'earlier', j) & ((1 << 60) - 1), earlier_profile(s, probe))
            fault = s.wchoice([('none', 0.5), ('hook', 0.35), ('overspend', 0.15)], 'fault')
            t_fault = sp['start_ts'] + 60_000 * s.randint(1, max(1, sp['minutes'] - 1), 'tf')
            if fault == 'hook':
                sp['routes'][0]['program']['raise_at'] = (s.choice(HOOKS, 'hook'), t_fault)
            elif fault == 'overspend':
                sp['routes'][0]['program']['overspend_at'] = t_fault
                sp['routes'][0]['program']['p_enter'] = 0.8
            sp['_fault'] = fault
            earlier.append(sp)
        return probe, earlier

    def run_one(self, arg):
        probe, earlier = self.make(arg['seed'])
        return self.execute(probe, earlier, arg)

    def execute(self, probe, earlier, arg):
        seq = [(sp, f'e{j}') for j, sp in enumerate(earlier)] + [(probe, 'p1'), (probe, 'p2')]
        hist = farm.run_in_child(run_sequence, seq)
        fresh = farm.run_in_child(run_sequence, [(probe, 'fresh')])
        S_ = hist['sessions']
        p1, p2 = S_[-2], S_[-1]
        f = fresh['sessions'][0]
        res = {'seed': arg.get('seed'), 'k': arg.get('k', -1), 'violations': [], 'counters': {}, 'status': f"{p1['status']}/{f['status']}",
               'minutes': sum(sp['minutes'] for sp in earlier) + 3 * probe['minutes'], 'events': sum(len(s['trace']) for s in S_) + len(f['trace']),
               'sig': R.trace_signature(f['trace']) + '|' + ','.join(f"{sp['type'][0]}{int(sp['exchange'] == probe['exchange'])}{s['status'][:2]}" for sp, s in zip(earlier, S_)),
               'digest': C.digest_trace(p1['trace']) + C.digest_trace(f['trace']), 'nontrivial': False}
        cnt = res['counters']
        cnt['earlier_sessions'] = len(earlier)
        for sp, s in zip(earlier, S_):
            cnt['earlier_' + s['status']] = cnt.get('earlier_' + s['status'], 0) + 1
            if s['status'] == 'injected-fault':
                cnt['fault_hook_exception'] = cnt.get('fault_hook_exception', 0) + 1
            if s['status'] == 'legal-rejection':
                cnt['fault_order_rejection'] = cnt.get('fault_order_rejection', 0) + 1
            if sp['start_ts'] == probe['start_ts']:
                cnt['skew_same_calendar_span'] = cnt.get('skew_same_calendar_span', 0) + 1
            if sp['exchange'] == probe['exchange']:
                cnt['skew_same_exchange_name'] = cnt.get('skew_same_exchange_name', 0) + 1
                if sp['type'] != probe['type']:
                    cnt['skew_spot_futures_same_name'] = cnt.get('skew_spot_futures_same_name', 0) + 1
            else:
                cnt['skew_other_exchange_name'] = cnt.get('skew_other_exchange_name', 0) + 1
        res['nontrivial'] = len(earlier) > 0 and any(e[0] == 'order_new' for e in f['trace'])

        def viol(clause, fp, detail):
            res['violations'].append({'property': 'C11', 'clause': clause, 'fingerprint': fp, 'detail': detail, 'seq': 0, 'horizon': -1})

        hist_tag = 'same-name=%d|type-skew=%d|aborted=%d' % (
            int(any(sp['exchange'] == probe['exchange'] for sp in earlier)),
            int(any(sp['type'] != probe['type'] for sp in earlier)),
            int(any(s['status'] in ('injected-fault', 'legal-rejection') for s in S_[:-2])))
        for name, s in (('p1', p1), ('p2', p2), ('fresh', f)):
            if s['status'] == 'harness-exception':
                raise farm.HarnessError(str(s.get('tb')))
        # (3) arguments unmodified
        for name, s in (('p1', p1), ('p2', p2)):
            if s['mutated']:
                viol('args-mutated', f"C11|argument-mutated|{','.join(s['mutated'])}", {'call': name})
        for j, s in enumerate(S_):
            if s.get('late_mutated'):
                viol('args-mutated', f"C11|argument-of-an-earlier-call-changed-by-a-later-call|{','.join(s['late_mutated'])}",
                     {'call': j, 'of': len(S_)})
                break
        cnt['second_call_reuses_argument_objects'] = int(bool(probe.get('_reuse_args')))
        # (1) probe after history == probe in a fresh process
        if p1['status'] != f['status'] or p1.get('exc_type') != f.get('exc_type'):
            viol('history-dependence', f"C11|probe-outcome-depends-on-history|fresh={f['status']}|after-history={p1['status']}:{p1.get('exc_type')}|{hist_tag}",
                 {'fresh': f.get('exc'), 'after_history': p1.get('exc'), 'tb': p1.get('tb')})
        else:
            d = first_diff(strip(p1['trace']), strip(f['trace']))
            if d is not None:
                a = strip(p1['trace'])
                b = strip(f['trace'])
                ea = a[d] if d < len(a) else None
                eb = b[d] if d < len(b) else None
                kind = (ea or eb)[0]
                viol('history-dependence', f'C11|probe-trace-depends-on-history|first-diff={kind}|{hist_tag}',
                     {'index': d, 'after_history': R.jsonable(ea), 'fresh': R.jsonable(eb)})
            elif p1['result'] != f['result']:
                keys = [k for k in (p1['result'] or {}).get('metrics', {}) if (p1['result']['metrics'].get(k) != (f['result'] or {}).get('metrics', {}).get(k))][:3] if isinstance((p1['result'] or {}).get('metrics'), dict) else ['?']
                viol('history-dependence', f"C11|probe-result-depends-on-history|{','.join(keys)}|{hist_tag}",
                     {'after_history': p1['result'], 'fresh': f['result']})
        # (2) second probe call == first
        if p2['status'] != p1['status']:
            viol('not-repeatable', f"C11|second-call-outcome-differs|first={p1['status']}|second={p2['status']}", {'exc': p2.get('exc')})
        else:
            d = first_diff(strip(p1['trace']), strip(p2['trace']))
            if d is not None:
                a = strip(p1['trace'])
                b = strip(p2['trace'])
                kind = (a[d] if d < len(a) else b[d])[0]
                viol('not-repeatable', f'C11|second-call-trace-differs|first-diff={kind}',
                     {'index': d, 'first': R.jsonable(a[d] if d < len(a) else None), 'second': R.jsonable(b[d] if d < len(b) else None)})
            elif p1['result'] != p2['result']:
                viol('not-repeatable', 'C11|second-call-result-differs', {})
        if res['violations']:
            res['replay'] = {'kind': 'history', 'probe': R.jsonable(probe), 'earlier': R.jsonable(earlier)}
        if arg.get('want_sample'):
            res['sample'] = {'probe': R.jsonable(R.spec_summary(probe)),
                             'earlier': [{'exchange': sp['exchange'], 'type': sp['type'], 'leverage': sp['leverage'], 'fee': sp['fee'],
                                          'fast': sp['fast'], 'fault': sp.get('_fault'), 'status': s['status']} for sp, s in zip(earlier, S_)]}
        return res

    def replay(self, payload):
        probe = _fix_spec(copy.deepcopy(payload['probe']))
        earlier = [_fix_spec(copy.deepcopy(e)) for e in payload['earlier']]
        return self.execute(probe, earlier, {})

    def minimise(self, payload, test, violation, budget_s):
        # drop earlier sessions one at a time while the same fingerprint class persists
        import time
        deadline = time.monotonic() + budget_s
        cur = payload
        fp = violation['fingerprint'].split('|same-name')[0]
        i = 0
        while i < len(cur['earlier']) and time.monotonic() < deadline:
            cand = dict(cur)
            cand['earlier'] = cur['earlier'][:i] + cur['earlier'][i + 1:]
            try:
                r = test(cand)
                ok = any(v['fingerprint'].split('|same-name')[0] == fp for v in r['violations'])
            except Exception:
                ok = False
            if ok:
                cur = cand
            else:
                i += 1
        cur = dict(cur)
        cur['minimised'] = [f"earlier sessions {len(payload['earlier'])}->{len(cur['earlier'])}"]
        return cur


CHECK = HistoryCheck(
    tiers={'quick': 400, 'thorough': 20_000},
    rule=('one seed -> a history executed in ONE forked process: 0-4 earlier research.backtest calls that differ from the probe in '
          'exchange name (same name in 60%), calendar span (same start as the probe in 50%), spot/futures, leverage and mode, fee, balance, symbols, timeframes, data routes, warm-up, '
          'simulator, hyperparameters and shared_vars traffic - about half of them aborted by an injected fault (exception raised from a '
          'drawn hook at a drawn candle, or a forced order rejection) - then the probe call twice. The probe is also executed in a fresh '
          'forked process without history. Oracle: (1) probe outcome, result dict and full event trace (hooks with balance, margin, hp, '
          'the candles readable for every symbol and timeframe - whole arrays at the first hook, the last rows at every hook -, '
          'exchange type, leverage, fee rate, shared_vars; orders; fills) after the history == fresh, bit for bit; (2) second call == first; '
          '(3) config, routes, data routes, candle and warm-up arrays, hyperparameters deep-equal to copies taken before the call - '
          'again for every call of the history after the last call has returned; in half of the histories the second probe call is '
          'given the very objects of the first. '
          'jesse runs in production mode (outside pytest). non-trivial = >=1 earlier session and >=1 order in the probe'),
    assumptions=['order/trade ids are random uuids in reality and excluded from the comparison (the id counter restarts per session)'],
    real_components=COMMON_REAL + ['process-global state: helpers.CACHED_CONFIG, services.api.api.drivers, config dict, store singleton, lru_caches'],
    stub_components=COMMON_STUB,
    fault_kinds=['fault_hook_exception', 'fault_order_rejection', 'skew_same_calendar_span', 'skew_same_exchange_name', 'skew_other_exchange_name', 'skew_spot_futures_same_name'],
    probes=['second_call_reuses_argument_objects', 'earlier_sessions', 'earlier_ok', 'earlier_injected-fault', 'earlier_legal-rejection'],
)
