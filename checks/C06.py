"""C06 - position events and the trade log are a faithful record of the fills (DESIGN 5/C06)."""
from simlab.checklib import MixedCheck
from simlab.mon_orders import Registry
from simlab.mon_positions import PositionCycles
from .common import COMMON_REAL, COMMON_STUB


def profile(st):
    return {'minutes': (60, 600), 'p_data_route': 0.1, 'n_routes': st.choice([1, 1, 2], 'nr'),
            'program': {'p_enter': st.choice([0.3, 0.8], 'pe'),
                        'entry_styles': st.choice([['ladder', 'mixed'], ['market', 'limit', 'stop', 'ladder', 'mixed']], 'es'),
                        'tp_rows': st.choice([1, 2, 3], 'tp'), 'sl_rows': st.choice([1, 2], 'sl'),
                        'resize_mode': st.choice(['always', 'random', 'never'], 'rm'),
                        'p_liquidate': st.choice([0.0, 0.01, 0.05], 'pl'),
                        'p_broker': st.choice([0.0, 0.0, 0.0, 0.05], 'pb'),
                        'p_modify': st.choice([0.0, 0.05], 'pm')}}


CHECK = MixedCheck(
    prop='C06', profile=profile,
    monitors=lambda: [Registry(), PositionCycles(('C06',))],
    tiers={'quick': 1500, 'thorough': 40_000},
    ops_profile={'spot_plain_sells': False, 'weights': {'boundary': 0.05}}, ops_tiers={'quick': 2000, 'thorough': 60_000},
    nontrivial=lambda r: r['counters'].get('c06_trades_checked', 0) > 0,
    ops_nontrivial=lambda r: r['counters'].get('c06_trades_checked', 0) > 0,
    rule=('session runs (multi-point entries, partial take-profits, stop resized or deliberately not resized after a reduction, '
          'liquidate(), flips by direct broker calls, open position at session end, 1-2 routes, spot and futures) and operation '
          'runs; PositionCycles turns the effective fills of each symbol into cycles and demands, per fill, exactly the matching '
          'position hook with the implied size and the causing order, per cycle exactly one ClosedTrade with the cycle\'s type, '
          'qty, size-weighted entry/exit, open/close times and order list, and in futures sum(trade pnl) = wallet change and '
          'net_profit = finishing - starting balance. non-trivial = >=1 trade record checked; distinct = trace signature'),
    assumptions=['exit price weighted by the effective (clipped) size of reduce-only exits',
                 'identities checked only when every position is closed at the end (jesse force-closes at session end)'],
    real_components=COMMON_REAL, stub_components=COMMON_STUB + ['operation runs: matching engine replaced by the seeded scheduler'],
    fault_kinds=['c06_oversize_close', 'c06_fill_flip', 'liquidate_called'],
    probes=['c06_trades_checked', 'c06_fill_open', 'c06_fill_increase', 'c06_fill_reduce', 'c06_fill_close', 'c06_fill_flip',
            'c06_pnl_identity_checked', 'c06_metrics_identity_checked', 'c06_fill_without_effect'],
)
