"""C10 - smart order routing and declarative exit orders (DESIGN 5/C10)."""
from simlab.checklib import SessionCheck
from simlab.mon_orders import Registry
from simlab.mon_misc import RoutingMonitor
from .common import COMMON_REAL, COMMON_STUB


def profile(st):
    if st.chance(0.08, 'directed_wrong_side'):
        # a stop-loss / take-profit declared in go_long/go_short that lies on the wrong side of the real entry price is
        # replaced by the framework with a market order; rare in the general mix (the programs only produce such a row
        # where the replacement closes the position exactly), so a share of the runs is built around it
        only_sl = st.chance(0.5, 'only_sl')
        return {'minutes': (60, 300), 'p_data_route': 0.0, 'type': 'futures',
                'program': {'p_enter': 0.8, 'exit_in_go': True, 'entry_styles': ['market'], 'wrong_side_p': st.choice([0.3, 0.6], 'ws'),
                            'sl_rows': 1 if only_sl else 0, 'tp_rows': 0 if only_sl else 1, 'near_band_p': 0.0,
                            'p_refine_on_open': st.choice([0.0, 0.5, 1.0], 'proo'), 'p_modify': st.choice([0.0, 0.2], 'pm'),
                            'p_hook_market': 0.0, 'p_liquidate': 0.0, 'resize_mode': st.choice(['always', 'never'], 'rm')}}
    return {'minutes': (60, 500), 'p_data_route': 0.1,
            'program': {'p_enter': st.choice([0.3, 0.8], 'pe'),
                        'near_band_p': st.choice([0.0, 0.15, 0.4], 'nb'), 'wrong_side_p': st.choice([0.0, 0.05], 'ws'),
                        'p_sl_inside_ladder': st.choice([0.0, 0.5], 'psil'), 'p_refine_on_open': st.choice([0.0, 0.5, 1.0], 'proo'),
                        'p_modify': st.choice([0.05, 0.2, 0.5], 'pm'), 'p_withdraw': st.choice([0.0, 0.03, 0.1], 'pw'), 'p_modify_entry': st.choice([0.0, 0.05], 'pme'),
                        'sl_rows': st.choice([1, 2, 3], 'sl'), 'tp_rows': st.choice([1, 2, 3], 'tp'),
                        'p_inplace': st.choice([0.0, 0.5], 'pinp'), 'repeat_exits': st.chance(0.25, 'rex'),
                        'p_keep_entry': st.choice([0.0, 0.3, 0.7], 'pk'), 'p_liquidate': st.choice([0.0, 0.02], 'pl'),
                        'entry_styles': st.choice([['market', 'limit', 'stop', 'ladder', 'mixed'], ['mixed', 'ladder']], 'es'),
                        'resize_mode': st.choice(['always', 'random', 'never'], 'rm')}}


CHECK = SessionCheck(
    prop='C10', profile=profile,
    monitors=lambda: [Registry(), RoutingMonitor(('C10',))],
    tiers={'quick': 1500, 'thorough': 60_000},
    nontrivial=lambda r: r['counters'].get('c10_exit_sets_checked', 0) > 0,
    rule=('one seed -> one session whose program declares entries (market/limit/stop/ladders/mixed) and SL/TP rows in go_long/'
          'go_short, on_open_position, update_position, on_increased/reduced_position and through liquidate(), with rows at '
          'price*(1+-0.00015) and a hair inside/outside, and long modification histories. Every entry submission and every '
          'reduce_position_at request is attributed to the orders it creates: one order per row, same qty and price (current price '
          'for market entries), type by the stated rule relative to the price the strategy sees at that moment, side, reduce-only '
          'for exits. At every after(): each ACTIVE stop-loss / take-profit order maps injectively to a row of the latest declaration; '
          'with a closed position no exit order is ACTIVE; resting entries are all cancelled in that step iff should_cancel_entry() '
          'answered yes. non-trivial = >=1 exit set checked with an open position'),
    assumptions=['inside a 1e-12 relative band around the 0.015% threshold either type is accepted',
                 'wrong-side rows that jesse replaces by plain market orders are matched on quantity only'],
    real_components=COMMON_REAL, stub_components=COMMON_STUB,
    fault_kinds=['exit_modified', 'entry_modified', 'liquidate_called', 'near_band_row', 'wrong_side_row'],
    probes=['identical_exit_redeclared_in_next_trade', 'declared_in_place', 'c10_rejected_exit_rows_judged', 'c10_open_time_exits_checked', 'declared_sl_inside_ladder', 'exits_refined_on_open', 'wrong_side_row', 'c10_entry_submissions', 'c10_exit_submissions', 'c10_exit_sets_checked', 'c10_rows_at_band_edge', 'c10_sce_yes', 'c10_sce_no',
            'c10_entry_market', 'c10_entry_limit', 'c10_entry_stop', 'c10_exit_market', 'c10_exit_limit', 'c10_exit_stop'],
)
