"""C02 - resting orders fill exactly when and where the price reaches them (DESIGN 5/C02)."""
from simlab.checklib import SessionCheck
from simlab.mon_orders import Registry, MatchMonitor
from .common import COMMON_REAL, COMMON_STUB


def profile(st):
    return {
        'minutes': (40, 600),
        'p_small_lattice': 0.35,
        'p_data_route': 0.2,
        'program': {'p_enter': st.choice([0.3, 0.8, 0.8], 'pe'),
                    'p_keep_entry': st.choice([0.0, 0.5, 0.9], 'pk'),
                    'p_modify': st.choice([0.0, 0.05, 0.2], 'pm')},
    }


CHECK = SessionCheck(
    prop='C02',
    profile=profile,
    monitors=lambda: [Registry(), MatchMonitor(('C02',))],
    tiers={'quick': 1500, 'thorough': 60_000},
    nontrivial=lambda r: r['counters'].get('resting_fills', 0) > 0,
    rule=('one seed -> one backtest session (step or fast simulator, spot/futures, 1-2 symbols) on a price lattice with '
          'gaps/flats/ties; at every matching call the minute (chunk) range is computed from the harness copy of the '
          'input; every LIMIT/STOP fill must happen inside a matching call of its symbol, at its submitted price/qty, '
          'inside the range, and (fast) in the first minute that reaches it; no ACTIVE resting order may be left with '
          'its price on the remaining path (step) / in the chunk range (fast); MARKET orders fill at the price current '
          'at submission before a later candle is fed. non-trivial = >=1 resting-order fill; distinct = trace signature'),
    assumptions=['fast simulator: for an order created mid-minute the creation minute itself is accepted either way',
                 'MARKET exits: price within the 0.015% routing band of the price current at submission'],
    real_components=COMMON_REAL, stub_components=COMMON_STUB,
    fault_kinds=['minutes_with_2+_fills', 'reaction_order_filled_same_minute'],
    probes=['resting_fills', 'market_fills', 'match_calls_with_resting', 'minutes_with_2+_fills',
            'reaction_order_filled_same_minute', 'split_calls'],
)
