"""C05 - order lifecycle: one terminal transition, idempotent execute/cancel (DESIGN 5/C05)."""
from simlab.checklib import MixedCheck
from simlab.mon_orders import Registry
from simlab.mon_lifecycle import LifecycleMonitor
from .common import COMMON_REAL, COMMON_STUB


def profile(st):
    return {'minutes': (40, 400), 'p_data_route': 0.1,
            'program': {'p_enter': st.choice([0.3, 0.8], 'pe'), 'p_dup': st.choice([0.05, 0.2, 0.5], 'pd'),
                        'p_keep_entry': st.choice([0.0, 0.5], 'pk'), 'p_modify': st.choice([0.0, 0.1], 'pm')}}


CHECK = MixedCheck(
    prop='C05', profile=profile,
    monitors=lambda: [Registry(), LifecycleMonitor(('C05',))],
    tiers={'quick': 500, 'thorough': 15_000},
    ops_profile={'p_dup': 0.2, 'spot_plain_sells': False, 'weights': {'boundary': 0.05}}, ops_tiers={'quick': 3000, 'thorough': 100_000},
    nontrivial=lambda r: r['counters'].get('c05_execute_on_final', 0) + r['counters'].get('c05_cancel_on_final', 0) > 0,
    ops_nontrivial=lambda r: r['counters'].get('c05_execute_on_final', 0) + r['counters'].get('c05_cancel_on_final', 0) > 0,
    rule=('operation runs (real store/exchange/positions/orders/broker/trade log, scheduler instead of the matching engine: '
          'submit, fill any resting order, cancel, cancel-all, flush, duplicate execute()/cancel() on final orders) and '
          'session runs (duplicates injected from after()); an OrderRegistry model observes every order at construction; '
          'a call on a final order must leave a full snapshot unchanged; at every sync point the reported active set must '
          'equal the non-final set; at the end every executed order is in exactly one trade. non-trivial = >=1 duplicate '
          'delivery on a final order; distinct = trace signature (+op kinds)'),
    assumptions=['the simulator-produced duplicates (order listed twice in a candidate list) are covered by the session runs'],
    real_components=COMMON_REAL + ['operation runs: everything except the matching engine'],
    stub_components=COMMON_STUB + ['operation runs: matching engine replaced by the seeded scheduler; declarative exit layer of the probe strategy neutralised'],
    fault_kinds=['fault_duplicate_execute', 'fault_duplicate_cancel', 'c05_execute_on_final', 'c05_cancel_on_final'],
    probes=['c05_syncs', 'orders_created', 'op_cancel_all', 'op_fill', 'op_flush'],
)
