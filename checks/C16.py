"""C16 - reported metrics are consistent with the trades and the equity series (DESIGN 5/C16)."""
from simlab.checklib import SessionCheck
from simlab.mon_orders import Registry
from simlab.mon_accounts import AccountMonitor
from simlab.mon_misc import EquityMonitor
from .common import COMMON_REAL, COMMON_STUB


def profile(st):
    kind = st.choice(['multi', 'multi', 'multi', 'short', 'lose', 'win', 'flat'], 'kind')
    pf = {'minutes': (1441, 7 * 1440) if kind != 'short' else (30, 1500), 'p_data_route': 0.1, 'p_warmup': 0.2,
          'n_routes': st.choice([1, 2, 2], 'nr'),
          'trading_tfs': ['1m', '5m', '15m', '15m', '1h'] if kind != 'short' else ['1m', '5m'],
          'program': {'p_enter': st.choice([0.05, 0.2, 0.6], 'pe'), 'p_keep_entry': st.choice([0.0, 0.5, 0.9], 'pk'),
                      'p_broker': 0.0}}
    if kind == 'flat':
        pf['fee'] = 0.0
    return pf


CHECK = SessionCheck(
    prop='C16', profile=profile,
    monitors=lambda: [Registry(), AccountMonitor(()), EquityMonitor(('C16',))],
    tiers={'quick': 500, 'thorough': 10_000},
    nontrivial=lambda r: r['counters'].get('c16_ratio_sets_checked', 0) > 0 or r['counters'].get('c16_equity_samples', 0) > 2,
    rule=('one seed -> one multi-day session (1-2 routes in every route/feed order, spot and futures, both simulators); at every '
          'daily-balance sample the appended value is compared with the equity of the reference account (futures: wallet + unrealised '
          'PnL; spot: free + reserved quote + market value of base) stepped from the order seams; sample count = 1 + day boundaries '
          'crossed + 1; after the run every metric named in the property is recomputed in plain python/numpy from the session\'s closed '
          'trades and daily balances and compared with result[metrics]. non-trivial = ratios checked or >2 samples'),
    assumptions=['metric identities are checked on the trade lists that simulated sessions produce, not on hand-built synthetic lists',
                 'sortino downside deviation divides by the number of returns'],
    real_components=COMMON_REAL, stub_components=COMMON_STUB,
    fault_kinds=[], probes=['c16_equity_samples', 'c16_metric_sets_checked', 'c16_ratio_sets_checked'],
)
