"""C04 - spot balances equal a cash-account model (DESIGN 5/C04). Session-monitor part."""
from simlab.checklib import MixedCheck
from simlab.mon_orders import Registry
from simlab.mon_accounts import AccountMonitor
from .common import COMMON_REAL, COMMON_STUB


def profile(st):
    return {
        'type': 'spot',
        'minutes': (40, 500),
        'p_data_route': 0.1,
        'n_routes': st.choice([1, 2, 2], 'nr'),
        'program': {'p_enter': st.choice([0.3, 0.8], 'pe'), 'p_modify': st.choice([0.05, 0.2], 'pm'),
                    'qty_decimals': st.choice([1, 3, 6], 'qd')},
    }


CHECK = MixedCheck(
    prop='C04', profile=profile,
    monitors=lambda: [Registry(), AccountMonitor(('C04',))],
    tiers={'quick': 300, 'thorough': 10_000},
    ops_profile={'type': 'spot', 'spot_plain_sells': True}, ops_tiers={'quick': 4000, 'thorough': 300_000},
    ops_nontrivial=lambda r: r['counters'].get('c04_compares', 0) >= 5,
    nontrivial=lambda r: r['counters'].get('c04_compares', 0) > 50,
    rule=('operation runs: real store/exchange/positions/orders/broker of a spot session, the seeded scheduler draws 5-60 operations '
          '(buy MARKET/LIMIT/STOP, reduce-only sells, cancel, cancel-then-bigger-sell, fill any resting order, flush, boundary buys '
          'exactly at / above the free quote, decimal quantities with 0-8 places); plus session runs with the same monitor. After '
          'every operation quote, base and position size are compared with the CashAccount reference (decimal helper contract), '
          'balances must stay >= 0, no short, and InsufficientBalance must be raised iff the stated rule says so. non-trivial = >=5 '
          'comparisons; distinct = trace signature + op kinds'),
    assumptions=[], real_components=COMMON_REAL, stub_components=COMMON_STUB,
    fault_kinds=['c04_sell_clipped_to_base', 'c04_boundary_submissions'],
    probes=['c04_compares', 'rejections_seen'],
)
