"""C04 - spot balances equal a cash-account model (DESIGN 5/C04). Session-monitor part."""
from simlab.checklib import SessionCheck
from simlab.mon_orders import Registry
from simlab.mon_accounts import AccountMonitor
from .common import COMMON_REAL, COMMON_STUB


def profile(st):
    return {
        'type': 'spot',
        'minutes': (40, 500),
        'p_data_route': 0.1,
        'n_routes': st.choice([1, 2, 2], 'nr'),
        'program': {'p_enter': st.choice([0.3, 0.8], 'pe'), 'p_modify': st.choice([0.05, 0.2], 'pm'),
                    'qty_decimals': st.choice([1, 3, 6], 'qd')},
    }


CHECK = SessionCheck(
    prop='C04', profile=profile,
    monitors=lambda: [Registry(), AccountMonitor(('C04',))],
    tiers={'quick': 1000, 'thorough': 60_000},
    nontrivial=lambda r: r['counters'].get('c04_compares', 0) > 50,
    rule='sessions (spot) with the CashAccount reference fed by the order seams, compared after every operation and at every hook',
    assumptions=[], real_components=COMMON_REAL, stub_components=COMMON_STUB,
    fault_kinds=['c04_sell_clipped_to_base', 'c04_boundary_submissions'],
    probes=['c04_compares', 'rejections_seen'],
)
