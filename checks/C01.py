"""C01 - backtest decisions never depend on future candles (DESIGN 5/C01): 2-run hyperproperty."""
from simlab.pairs import FutureReplacementCheck
from .common import COMMON_REAL, COMMON_STUB


def profile(st):
    pf = {'minutes': (20, 500), 'p_data_route': 0.5, 'trading_tfs': ['1m', '1m', '3m', '5m', '15m'],
          'data_tfs': ['3m', '5m', '15m', '30m', '1h'], 'p_warmup': 0.4,
          'program': {'p_enter': st.choice([0.1, 0.3, 0.8], 'pe'), 'p_keep_entry': st.choice([0.0, 0.5, 0.9], 'pk')}}
    if st.chance(0.3, 'liq'):
        # isolated margin with a liquidation price close to the market and a big gap at the cut: the
        # liquidation decision of the last minute before the cut must not depend on the gap
        pf.update({'type': 'futures', 'mode': 'isolated', 'leverage': st.choice([20, 50, 100, 125], 'lev'), 'big_gap': True,
                   'p_small_lattice': 0.0})
        pf['program'].update({'p_enter': 0.8, 'sl_rows': 0, 'tp_rows': st.choice([0, 1], 'tp'), 'exit_dist': (200, 600),
                              'entry_styles': ['market'], 'size_frac': 0.45, 'p_liquidate': 0.0})
    return pf


CHECK = FutureReplacementCheck(
    profile=profile,
    tiers={'quick': 600, 'thorough': 30_000},
    rule=('one seed -> a session A (1-2 symbols, trading tf 1m-15m, extra data routes, spot/futures, warm-up on/off, step or fast '
          'simulator), a cut minute t (fast: on a trading-candle boundary) and a session B = same head + another tail from t on '
          '(other regime, level shift/gap at the cut, other length >= 1), executed in two forked grandchildren under identical keyed '
          'decisions. Every recorded event whose feed horizon (largest 1m timestamp handed to the store or the matcher) is < t - hook '
          'invocations with price/position/balance/margin/hp, the candles readable for every symbol x timeframe, every order '
          'construction/cancel/fill, daily samples - must be bit-identical in A and B. non-trivial = prefix with >20 events and >=1 order'),
    assumptions=['candle digests cover length + the last 3 rows of every series at every hook (older rows were digested at earlier hooks)'],
    real_components=COMMON_REAL, stub_components=COMMON_STUB,
    fault_kinds=['pairs_step', 'pairs_fast'],
    probes=['prefix_events', 'prefix_with_orders', 'cut_inside_open_position', 'cut_inside_forming_candle', 'vacuous_no_cut'],
)
