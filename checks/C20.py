"""C20 - candle series handed to the store are gapless and strictly ordered (DESIGN 5/C20).
(a) gap filling of lossy / duplicated / shuffled exchange batches, (b) the candle store under new /
repeated / late / overlapping deliveries, (c) spacing validation of research.backtest,
plus the in-session monotonicity monitor."""
import copy

import numpy as np

from simlab import ctx as C, session as S, runner as R
from simlab.checklib import SessionCheck
from simlab.mon_candles import CandleMonitor
from simlab.prng import Stream, run_seed
from .common import COMMON_REAL, COMMON_STUB

T0 = 1_609_459_200_000


# ------------------------------------------------------------------------------- (a) lossy feed -> gap filling
def gen_batch(seed):
    st = Stream(seed, 'c20a')
    n = st.choice([1, 2, 3, 5, 10, 30, 60, 120], 'n')
    start = T0 + 60_000 * st.randint(0, 5000, 's')
    price = st.choice([0.5, 37.0, 20000.0], 'p')
    full = []
    k = price
    for i in range(n):
        o = k
        c = round(o * (1 + (st.u('c', i) - 0.5) * 0.01), 6)
        h = max(o, c) * (1 + st.u('h', i) * 0.002)
        l = min(o, c) * (1 - st.u('l', i) * 0.002)
        full.append({'id': f'id{i}', 'exchange': 'Fake Exchange', 'symbol': 'BTC-USDT', 'timeframe': '1m',
                     'timestamp': start + i * 60_000, 'open': o, 'close': c, 'high': h, 'low': l, 'volume': float(st.randint(0, 900, 'v', i))})
        k = c
    # faults of the feed
    pattern = st.choice(['none', 'start', 'middle', 'end', 'all-but-one', 'random', 'start+end', 'two-holes'], 'pat')
    keep = [True] * n
    if pattern == 'start':
        for i in range(st.randint(1, max(1, n - 1), 'a')):
            keep[i] = False
    elif pattern == 'end':
        for i in range(st.randint(1, max(1, n - 1), 'a')):
            keep[n - 1 - i] = False
    elif pattern == 'middle' and n >= 3:
        a = st.randint(1, n - 2, 'a')
        b = st.randint(a, n - 2, 'b')
        for i in range(a, b + 1):
            keep[i] = False
    elif pattern == 'all-but-one':
        j = st.randint(0, n - 1, 'j')
        keep = [i == j for i in range(n)]
    elif pattern == 'random':
        keep = [st.u('k', i) < 0.6 for i in range(n)]
    elif pattern == 'start+end' and n >= 3:
        keep[0] = False
        keep[-1] = False
    elif pattern == 'two-holes' and n >= 7:
        keep[1] = keep[2] = False
        keep[n - 3] = keep[n - 2] = False
    if not any(keep):
        keep[st.randint(0, n - 1, 'one')] = True
    batch = [copy.deepcopy(full[i]) for i in range(n) if keep[i]]
    faults = {'lost': n - len(batch), 'dup': 0, 'shuffled': 0}
    if st.chance(0.3, 'dup') and batch:
        for _ in range(st.randint(1, 3, 'nd')):
            j = st.randint(0, len(batch) - 1, 'dj', _)
            batch.insert(st.randint(0, len(batch), 'di', _), copy.deepcopy(batch[j]))
            faults['dup'] += 1
    if st.chance(0.3, 'shuffle'):
        batch = st.shuffle(batch, 'sh')
        faults['shuffled'] = 1
    elif faults['lost'] and st.chance(0.35, 'overrun'):
        # an exchange that answers "limit = n" literally: minutes are missing inside, so the page runs past the
        # requested end by as many candles (or a few); nothing outside the interval may come back
        extra = faults['lost'] if st.chance(0.6, 'overrun_exact') else st.randint(1, 3, 'overrun_n')
        k = batch[-1]['close'] if batch else price
        for j in range(extra):
            t = start + (n + j) * 60_000
            batch.append({'id': f'over{j}', 'exchange': 'Fake Exchange', 'symbol': 'BTC-USDT', 'timeframe': '1m', 'timestamp': t,
                          'open': k, 'close': k, 'high': k * 1.001, 'low': k * 0.999, 'volume': 1.0})
        faults['overrun'] = extra
    return {'start': start, 'end': start + (n - 1) * 60_000, 'batch': batch, 'pattern': pattern, 'faults': faults}


def check_fill(case):
    from jesse.modes.import_candles_mode import _fill_absent_candles
    vs = []
    batch = copy.deepcopy(case['batch'])
    snapshot = copy.deepcopy(batch)
    start, end = case['start'], case['end']
    tag = f"pattern={case['pattern']}|dup={int(case['faults']['dup'] > 0)}|shuffled={case['faults']['shuffled']}" + ('|overrun=1' if case['faults'].get('overrun') else '')

    def v(clause, fp, detail):
        vs.append({'property': 'C20', 'clause': clause, 'fingerprint': fp, 'detail': detail, 'seq': 0, 'horizon': -1})
    try:
        out = _fill_absent_candles(batch, start, end)
    except Exception as e:
        v('fill-raised', f'C20|fill|raised-{type(e).__name__}|{tag}', {'exc': repr(e)})
        return vs
    n = (end - start) // 60_000 + 1
    ts = [c['timestamp'] for c in out]
    if len(out) != n or ts != [start + i * 60_000 for i in range(n)]:
        v('fill-grid', f'C20|fill|not-one-candle-per-minute|{tag}', {'n': n, 'got': len(out), 'ts_head': ts[:5]})
        return vs
    if batch != snapshot:
        v('fill-mutated-input', f'C20|fill|input-batch-mutated|{tag}', {})
    first = {}
    for c in snapshot:
        first.setdefault(c['timestamp'], c)
    first_known_open = snapshot[0]['open']
    prev_close = None
    for i, c in enumerate(out):
        t = start + i * 60_000
        if t in first:
            w = first[t]
            if any(c.get(k) != w.get(k) for k in ('timestamp', 'open', 'close', 'high', 'low', 'volume', 'symbol', 'exchange')):
                v('fill-changed-provided', f'C20|fill|provided-candle-changed|{tag}', {'i': i, 'got': c, 'want': w})
                break
        else:
            ref = prev_close if prev_close is not None else first_known_open
            if not (c['open'] == c['high'] == c['low'] == c['close'] == ref and c['volume'] == 0):
                v('fill-value', f'C20|fill|missing-minute-not-flat-at-previous-close|before-first={int(prev_close is None)}|{tag}',
                  {'i': i, 'got': {k: c[k] for k in ('open', 'high', 'low', 'close', 'volume')}, 'want': ref})
                break
            if c.get('timeframe') != '1m' or c.get('symbol') != snapshot[0]['symbol']:
                v('fill-meta', f'C20|fill|filled-candle-metadata|{tag}', {'got': c})
                break
        prev_close = c['close']
    return vs


# ------------------------------------------------------------------------------- (b) store histories
def setup_store(bucket, tfs):
    from jesse.config import config as jesse_config, set_config
    from jesse.research.backtest import _format_config
    from jesse.routes import router
    from jesse.store import store
    jesse_config['app']['trading_mode'] = 'backtest'
    set_config(_format_config({'starting_balance': 1000, 'fee': 0, 'type': 'futures', 'futures_leverage': 1,
                               'futures_leverage_mode': 'cross', 'exchange': 'Sim Futures', 'warm_up_candles': 0}))
    from simlab import programs as P
    routes = [{'exchange': 'Sim Futures', 'strategy': P.strategy_class_for_route(0), 'symbol': 'BTC-USDT', 'timeframe': '1m'}]
    data = [{'exchange': 'Sim Futures', 'symbol': 'BTC-USDT', 'timeframe': tf} for tf in tfs]
    router.initiate(routes, data)
    store.candles.init_storage(bucket)
    return store


def mk(ts, v):
    return np.array([float(ts), v, v + 1, v + 2, v - 1, float(int(v) % 7)])


def gen_store_ops(seed):
    st = Stream(seed, 'c20b')
    bucket = st.choice([3, 5, 8, 40], 'bucket')
    tf = st.choice(['1m', '1m', '3m', '5m'], 'tf')
    n = st.randint(2, 70, 'n')
    ops = []
    for i in range(n):
        s = st.sub(i)
        k = s.wchoice([('new', 5), ('gap_new', 0.7), ('same_last', 1.5), ('stored_older', 2.5), ('older_unknown', 0.8),
                       ('batch', 1), ('multi_new', 1.2), ('multi_same', 0.7), ('multi_overlap', 0.7)], 'k')
        ops.append([k, s.randint(0, 10 ** 6, 'a'), s.randint(1, 6, 'b')])
    return {'bucket': bucket, 'tf': tf, 'ops': ops}


def run_store_ops(case):
    tf = case['tf']
    from simlab.session import TF_MIN
    step = TF_MIN[tf] * 60_000
    store = setup_store(case['bucket'], [tf] if tf != '1m' else [])
    cs = store.candles
    ex, sym = 'Sim Futures', 'BTC-USDT'
    model = {}           # ts -> row (list)
    val = 10.0
    vs = []
    counters = {'ops': 0, 'replaced_depth>=20': 0, 'replaced_index_0_or_1': 0, 'older_unknown_raised': 0, 'older_unknown_inserted': 0,
                'older_unknown_ignored': 0, 'fault_redelivery': 0, 'fault_late_candle': 0, 'fault_overlap': 0}

    def v(clause, fp, detail):
        vs.append({'property': 'C20', 'clause': clause, 'fingerprint': fp, 'detail': detail, 'seq': counters['ops'], 'horizon': -1})

    def stored():
        a = cs.get_storage(ex, sym, tf)
        return a.array[:len(a)].copy()

    def check(after, expect_raise_ok=False):
        a = stored()
        ts = a[:, 0] if len(a) else np.array([])
        if len(ts) >= 2 and not np.all(np.diff(ts) > 0):
            v('order', f'C20|store|timestamps-not-strictly-increasing|after={after}|tf={tf}', {'ts': ts[-6:].tolist()})
            return False
        want = [model[k] for k in sorted(model)]
        if a.tolist() != want:
            # locate
            if len(a) != len(want):
                v('content', f'C20|store|count-differs|after={after}|tf={tf}', {'got': len(a), 'want': len(want)})
            else:
                for i in range(len(want)):
                    if a[i].tolist() != want[i]:
                        depth = len(want) - 1 - i
                        v('content', f'C20|store|row-differs|after={after}|depth>=20={int(depth >= 20)}|index<=1={int(i <= 1)}|tf={tf}',
                          {'index': i, 'depth': depth, 'got': a[i].tolist(), 'want': want[i]})
                        break
            return False
        return True

    for op in case['ops']:
        counters['ops'] += 1
        k, a, b = op
        keys = sorted(model)
        last = keys[-1] if keys else T0 - step
        try:
            if k in ('new', 'gap_new'):
                t = last + step * (1 if k == 'new' else 1 + b)
                val += 1
                c = mk(t, val)
                cs.add_candle(c, ex, sym, tf, with_execution=False, with_generation=False)
                model[t] = c.tolist()
            elif k == 'same_last' and keys:
                val += 1
                c = mk(last, val)
                counters['fault_redelivery'] += 1
                cs.add_candle(c, ex, sym, tf, with_execution=False, with_generation=False)
                model[last] = c.tolist()
            elif k == 'stored_older' and len(keys) >= 2:
                i = a % (len(keys) - 1)
                if b == 1:
                    i = min(1, len(keys) - 2)      # index 0 / 1 are the interesting ones
                elif b == 2:
                    i = 0
                t = keys[i]
                val += 1
                c = mk(t, val)
                depth = len(keys) - 1 - i
                counters['fault_late_candle'] += 1
                if depth >= 20:
                    counters['replaced_depth>=20'] += 1
                if i <= 1:
                    counters['replaced_index_0_or_1'] += 1
                cs.add_candle(c, ex, sym, tf, with_execution=False, with_generation=False)
                model[t] = c.tolist()
            elif k == 'older_unknown' and keys:
                # a timestamp older than the newest one that was never stored (before the first, or in a hole)
                holes = [float(t) for t in range(int(keys[0]) - 2 * step, int(last), step) if float(t) not in model and t > 0]
                if not holes:
                    continue
                t = holes[a % len(holes)]
                val += 1
                c = mk(t, val)
                before = stored()
                try:
                    cs.add_candle(c, ex, sym, tf, with_execution=False, with_generation=False)
                except Exception as e:
                    counters['older_unknown_raised'] += 1    # not stated whether it may raise: counted, not judged
                    if stored().tolist() != before.tolist():
                        v('content', f'C20|store|older-unknown-raised-and-changed-store|tf={tf}', {'exc': repr(e)})
                    continue
                after = stored()
                if after.tolist() == before.tolist():
                    counters['older_unknown_ignored'] += 1
                else:
                    model[t] = c.tolist()
                    counters['older_unknown_inserted'] += 1
            elif k == 'batch':
                # a batch as two stitched import pages deliver it: new minutes in order, possibly starting ON the last
                # stored minute (overlap) and possibly repeating one of its own minutes (the later copy replaces)
                variant = a % 3
                t0 = last + step
                if variant == 2 and keys:
                    t0 = last
                    counters['fault_overlap'] += 1
                rows = []
                for j in range(b):
                    val += 1
                    rows.append(mk(t0 + step * j, val))
                if variant == 1:
                    j = (a // 3) % len(rows)
                    val += 1
                    rows.insert(j + 1, mk(rows[j][0], val))
                    counters['fault_redelivery'] += 1
                    counters['batch_with_repeated_minute'] = counters.get('batch_with_repeated_minute', 0) + 1
                if not keys:
                    counters['batch_into_empty_store'] = counters.get('batch_into_empty_store', 0) + 1
                cs.batch_add_candle(np.array(rows), ex, sym, tf, with_generation=False)
                for r in rows:
                    model[r[0]] = r.tolist()
            elif k.startswith('multi') and tf == '1m':
                if keys and (keys[-1] - keys[0]) / step + 1 != len(keys):
                    continue     # the bulk path is defined for gapless series only (that is what C20 is about)
                if k == 'multi_new' or not keys:
                    t0 = last + step
                elif k == 'multi_same':
                    t0 = keys[max(0, len(keys) - b)]
                    counters['fault_redelivery'] += 1
                else:
                    t0 = keys[max(0, len(keys) - 1 - (a % b))]
                    counters['fault_overlap'] += 1
                rows = []
                for j in range(b):
                    t = t0 + step * j
                    if t in model and k == 'multi_same':
                        rows.append(np.array(model[t]))
                    else:
                        val += 1
                        rows.append(mk(t, val))
                if rows[-1][0] < last:
                    continue
                # contiguity of the model after the delivery (the store only accepts contiguous tails)
                cs.add_multiple_1m_candles(np.array(rows), ex, sym)
                for r in rows:
                    model[r[0]] = r.tolist()
            else:
                continue
        except Exception as e:
            v('raised', f'C20|store|{k}-raised-{type(e).__name__}|tf={tf}', {'op': op, 'exc': repr(e), 'len': len(model)})
            break
        if not check(k):
            break
    return vs, counters


# ------------------------------------------------------------------------------- (c) spacing validation
def run_spacing(seed):
    from jesse import research
    from simlab import programs as P
    st = Stream(seed, 'c20c')
    n = st.randint(3, 60, 'n')
    kind = st.choice(['ok', 'ok', '5m', 'dup-first', 'reversed', '2m', 'zero'], 'kind')
    where = st.choice(['trading', 'trading', 'data-only'], 'where')     # which symbol's series is wrongly spaced
    step = {'ok': 60_000, '5m': 300_000, '2m': 120_000}.get(kind, 60_000)
    arr = np.array([[T0 + i * step, 10, 10, 10, 10, 1.0] for i in range(n)], dtype=float)
    if kind == 'dup-first':
        arr[1, 0] = arr[0, 0]
    elif kind == 'reversed':
        arr = arr[::-1].copy()
    elif kind == 'zero':
        arr[1, 0] = arr[0, 0] + 59_999
    spec = S.gen_spec(seed, {'n_routes': 1, 'allow_data_symbol': False, 'p_data_route': 0, 'p_warmup': 0, 'fast': False,
                             'trading_tfs': ['1m'], 'program': {'inert': True}})
    ex = spec['exchange']
    c = C.RunCtx(spec, C.Decider(Stream(seed, 'dec')), [])
    C.set_current(c)
    c.in_session = True
    vs = []
    try:
        cfg = {'starting_balance': 1000, 'fee': 0, 'type': spec['type'], 'futures_leverage': 2, 'futures_leverage_mode': 'cross',
               'exchange': ex, 'warm_up_candles': 0}
        sym = spec['routes'][0]['symbol']
        other = 'ETH-USDT' if sym != 'ETH-USDT' else 'BTC-USDT'
        routes = [{'exchange': ex, 'strategy': P.strategy_class_for_route(0), 'symbol': sym, 'timeframe': '1m'}]
        good = np.array([[T0 + i * 60_000, 10, 10, 10, 10, 1.0] for i in range(n)], dtype=float)
        data_routes = []
        if where == 'data-only':
            # the trading symbol is fine; a symbol that is present only as a data route carries the bad spacing
            candles = {f'{ex}-{sym}': {'exchange': ex, 'symbol': sym, 'candles': good},
                       f'{ex}-{other}': {'exchange': ex, 'symbol': other, 'candles': arr}}
            data_routes = [{'exchange': ex, 'symbol': other, 'timeframe': '1m'}]
        else:
            candles = {f'{ex}-{sym}': {'exchange': ex, 'symbol': sym, 'candles': arr}}
        raised = None
        try:
            research.backtest(cfg, routes, data_routes, candles)
        except Exception as e:
            raised = e
            import traceback
            fr = traceback.extract_tb(e.__traceback__)
            if fr and '/simlab/' in fr[-1].filename:
                # raised by harness code (strategy program / seam), not by jesse: a harness error, never a verdict
                from simlab import farm
                raise farm.HarnessError('harness exception in spacing run: ' + ''.join(traceback.format_exception(e))[-1500:])
        if kind == 'ok' and raised is not None:
            vs.append({'property': 'C20', 'clause': 'spacing', 'fingerprint': f'C20|spacing|correct-input-rejected|{type(raised).__name__}',
                       'detail': {'exc': repr(raised)}, 'seq': 0, 'horizon': -1})
        if kind != 'ok' and not isinstance(raised, ValueError):
            vs.append({'property': 'C20', 'clause': 'spacing', 'fingerprint': f'C20|spacing|bad-spacing-accepted|{kind}|{where}|raised={type(raised).__name__ if raised else None}',
                       'detail': {'kind': kind}, 'seq': 0, 'horizon': -1})
    finally:
        c.in_session = False
        C.set_current(None)
    return vs, {'spacing_' + kind: 1, 'spacing_on_' + where: 1}


class CandleFeedCheck(SessionCheck):
    def __init__(self, *a, extra_tiers=None, **kw):
        super().__init__(*a, **kw)
        self.extra_tiers = extra_tiers

    def args_for(self, tier, verif_seed, runs=None):
        out = super().args_for(tier, verif_seed, runs)
        t = self.extra_tiers[tier]
        na, nb, nc = (t['fill'], t['store'], t['spacing']) if runs is None else (runs * 4, runs * 6, runs // 2)
        out += [{'k': 10_000_000 + k, 'seed': run_seed('C20/fill', verif_seed, k), 'mode': 'fill'} for k in range(na)]
        out += [{'k': 20_000_000 + k, 'seed': run_seed('C20/store', verif_seed, k), 'mode': 'store'} for k in range(nb)]
        out += [{'k': 30_000_000 + k, 'seed': run_seed('C20/spacing', verif_seed, k), 'mode': 'spacing'} for k in range(nc)]
        ni = t.get('import', 0) if runs is None else max(1, runs // 4)
        out += [{'k': 40_000_000 + k, 'seed': run_seed('C20/import', verif_seed, k), 'mode': 'import'} for k in range(ni)]
        return out

    def run_one(self, arg):
        mode = arg.get('mode')
        if mode is None:
            return super().run_one(arg)
        if mode == 'fill':
            case = gen_batch(arg['seed'])
            return self.pack(arg, mode, case, check_fill(case), dict({'fills': 1, 'fault_lost_minutes': case['faults']['lost'],
                                                                      'fault_duplicated': case['faults']['dup'], 'fault_shuffled': case['faults']['shuffled'],
                                                                      'fault_page_overruns_interval': case['faults'].get('overrun', 0)}),
                             f"fill/{case['pattern']}/{len(case['batch'])}/{case['faults']}")
        if mode == 'store':
            case = gen_store_ops(arg['seed'])
            vs, counters = run_store_ops(case)
            return self.pack(arg, mode, case, vs, counters, f"store/{case['bucket']}/{case['tf']}/" + '.'.join(o[0][:4] for o in case['ops'])[:100])
        if mode == 'import':
            from . import c20_import as I
            case = I.gen_case(arg['seed'])
            vs, counters = I.run_import(case)
            return self.pack(arg, mode, case, vs, counters,
                             f"import/{case['count']}/{case['days']}/{case['p_lost']}/{case['crashes']}/{counters.get('fault_duplicated', 0)}/{counters.get('fault_shuffled', 0)}")
        vs, counters = run_spacing(arg['seed'])
        return self.pack(arg, mode, {'seed': arg['seed']}, vs, counters, 'spacing/' + ','.join(counters))

    def pack(self, arg, mode, case, vs, counters, sig):
        res = {'seed': arg.get('seed'), 'k': arg.get('k', -1), 'status': 'ok', 'violations': R.jsonable(vs), 'counters': counters,
               'minutes': 0, 'events': counters.get('ops', 1), 'sig': sig, 'digest': C.digest_trace([(sig, len(vs))]),
               'nontrivial': True}
        if vs:
            res['replay'] = {'kind': 'c20-' + mode, 'case': R.jsonable(case)}
        if arg.get('want_sample'):
            res['sample'] = {'kind': mode, 'case': R.jsonable(case) if mode != 'fill' else {k: case[k] for k in ('start', 'end', 'pattern', 'faults')}}
        return res

    def replay(self, payload):
        kind = payload.get('kind', '')
        if not kind.startswith('c20-'):
            return super().replay(payload)
        mode = kind[4:]
        case = payload['case']
        if mode == 'fill':
            return self.pack({}, mode, case, check_fill(case), {}, 'fill')
        if mode == 'store':
            vs, counters = run_store_ops(case)
            return self.pack({}, mode, case, vs, counters, 'store')
        if mode == 'import':
            from . import c20_import as I
            vs, counters = I.run_import(case)
            return self.pack({}, mode, case, vs, counters, 'import')
        vs, counters = run_spacing(case['seed'])
        return self.pack({}, mode, case, vs, counters, 'spacing')

    def minimise(self, payload, test, violation, budget_s):
        if payload.get('kind') != 'c20-store':
            if payload.get('kind', '').startswith('c20-'):
                return payload
            return super().minimise(payload, test, violation, budget_s)
        import time
        from simlab import shrink
        fp = violation['fingerprint']
        deadline = time.monotonic() + budget_s

        def fails(ops):
            p = {'kind': 'c20-store', 'case': dict(payload['case'], ops=ops)}
            try:
                r = test(p)
            except Exception:
                return False
            return any(v['fingerprint'] == fp for v in r['violations'])
        ops = shrink.ddmin_list(payload['case']['ops'], fails, deadline)
        out = copy.deepcopy(payload)
        out['case']['ops'] = ops
        out['minimised'] = [f"ops {len(payload['case']['ops'])}->{len(ops)}"]
        return out


def profile(st):
    return {'minutes': (30, 400), 'p_data_route': 0.6, 'program': {'p_enter': 0.5}}


CHECK = CandleFeedCheck(
    prop='C20', profile=profile,
    monitors=lambda: [CandleMonitor(('C20',))],
    tiers={'quick': 200, 'thorough': 5_000},
    extra_tiers={'quick': {'fill': 3000, 'store': 5000, 'spacing': 150, 'import': 400}, 'thorough': {'fill': 150_000, 'store': 250_000, 'spacing': 3000, 'import': 20_000}},
    nontrivial=lambda r: True,
    rule=('(a) a fake exchange feed serves 1m batches for a drawn interval with message-loss faults (minutes missing at the start, in the '
          'middle, at the end, all but one, random), exact duplicates and shuffled order; every batch goes through the real '
          '_fill_absent_candles and must come back with exactly one candle per minute, strictly increasing, provided candles untouched, '
          'missing minutes flat at the previous close (first known open before any candle) with zero volume; both by pushing batches through '
          '_fill_absent_candles directly and by running the REAL import loop (import_candles_mode.run) against the fake driver, a virtual '
          'clock and the real Candle model bound to in-memory SQLite, with crash faults (the connection dies at a drawn batch; only the '
          'database survives; the import is started again) - afterwards the table must hold exactly one row per minute of the imported '
          'span, every served candle untouched, and a second import must change nothing. (b) operation runs against a real '
          'CandlesState (bucket sizes 3-40, 1m/3m/5m): newer, same-as-last, same-as-stored-older at every depth incl. index 0/1 and depth >= 20, '
          'older-unknown, batch_add_candle, add_multiple_1m_candles (new, identical re-delivery, overlap); after each the stored series must '
          'equal an ordered-map model (append / replace in place / nothing else changed). (c) research.backtest must reject input whose '
          'leading candles are not 60 s apart and accept correct input. Plus the in-session monitor: timestamps strictly increasing after '
          'every add in simulated sessions.'),
    assumptions=['whether an older, never-stored timestamp may raise is not stated: counted, not judged (the store must stay intact)',
                 'import loop: backup-exchange path and the "no data at the requested start" restart are not driven (the first minute of a batch is always served)'],
    real_components=['import_candles_mode._fill_absent_candles', 'CandlesState.add_candle/batch_add_candle/add_multiple_1m_candles',
                     'research.backtest spacing validation'] + COMMON_REAL,
    stub_components=['exchange REST driver (fake, lossy)', 'candle database: in-memory SQLite instead of Postgres', 'wall clock / sleep of the import loop (virtual)'] + COMMON_STUB,
    fault_kinds=['fault_lost_minutes', 'fault_duplicated', 'fault_shuffled', 'fault_page_overruns_interval', 'fault_redelivery', 'fault_late_candle', 'fault_overlap',
                 'fault_crash_mid_import', 'fault_restart'],
    probes=['batch_into_empty_store', 'batch_with_repeated_minute', 'fills', 'ops', 'import_runs', 'fetch_calls', 'fill_calls', 'rows_checked', 'skipped_existing_batches', 'replaced_depth>=20', 'replaced_index_0_or_1', 'older_unknown_raised', 'older_unknown_inserted', 'older_unknown_ignored',
            'spacing_ok', 'spacing_5m', 'spacing_dup-first', 'spacing_reversed', 'spacing_2m', 'spacing_zero'],
)
