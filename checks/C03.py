"""C03 - futures account = average-cost margin account (DESIGN 5/C03). Session-monitor part."""
from simlab.checklib import SessionCheck
from simlab.mon_orders import Registry
from simlab.mon_accounts import AccountMonitor
from .common import COMMON_REAL, COMMON_STUB


def profile(st):
    return {
        'type': 'futures',
        'minutes': (40, 500),
        'p_data_route': 0.1,
        'n_routes': st.choice([1, 2, 2], 'nr'),
        'program': {'p_enter': st.choice([0.3, 0.8], 'pe'), 'p_modify_entry': st.choice([0.0, 0.05], 'pme'),
                    'p_broker': st.choice([0.0, 0.0, 0.03], 'pb')},
    }


CHECK = SessionCheck(
    prop='C03', profile=profile,
    monitors=lambda: [Registry(), AccountMonitor(('C03',))],
    tiers={'quick': 1000, 'thorough': 60_000},
    nontrivial=lambda r: r['counters'].get('c03_fill_reduce', 0) + r['counters'].get('c03_fill_close', 0) > 0,
    rule='sessions (futures) with the MarginAccount reference fed by the order seams, compared after every operation and at every hook',
    assumptions=[], real_components=COMMON_REAL, stub_components=COMMON_STUB,
    fault_kinds=['c03_oversize_fill', 'c03_fill_flip', 'c03_boundary_submissions'],
    probes=['c03_compares', 'c03_fill_open', 'c03_fill_increase', 'c03_fill_reduce', 'c03_fill_close', 'c03_fill_flip', 'rejections_seen'],
)
