"""C03 - futures account = average-cost margin account (DESIGN 5/C03). Session-monitor part."""
from simlab.checklib import MixedCheck
from simlab.mon_orders import Registry
from simlab.mon_accounts import AccountMonitor
from .common import COMMON_REAL, COMMON_STUB


def profile(st):
    return {
        'type': 'futures',
        'minutes': (40, 500),
        'p_data_route': 0.1,
        'n_routes': st.choice([1, 2, 2], 'nr'),
        'program': {'p_enter': st.choice([0.3, 0.8], 'pe'), 'p_modify_entry': st.choice([0.0, 0.05], 'pme'),
                    'p_broker': st.choice([0.0, 0.0, 0.03], 'pb')},
    }


CHECK = MixedCheck(
    prop='C03', profile=profile,
    monitors=lambda: [Registry(), AccountMonitor(('C03',))],
    tiers={'quick': 300, 'thorough': 10_000},
    ops_profile={'type': 'futures'}, ops_tiers={'quick': 4000, 'thorough': 120_000},
    ops_nontrivial=lambda r: r['counters'].get('c03_compares', 0) >= 5,
    nontrivial=lambda r: r['counters'].get('c03_fill_reduce', 0) + r['counters'].get('c03_fill_close', 0) > 0,
    rule=('operation runs: real store/exchange/positions/orders/broker/strategy plumbing of a futures session (1-2 symbols sharing the '
          'wallet, leverage 1-125, 4 fee rates), the seeded scheduler draws 5-60 operations (mark price, submit market/limit/stop '
          'buy/sell, reduce-only exits partial/full/oversize, flush, fill any resting order at its price, cancel, cancel-all, '
          'submissions exactly at / just above / far above the available margin, submit-then-cancel round trips, duplicates); plus '
          'session runs with the same monitor. After every operation wallet, size, side, entry, unrealised PnL and available margin '
          'are compared with the MarginAccount reference; InsufficientMargin must be raised iff notional/leverage exceeds the '
          'reference margin. non-trivial = >=5 comparisons; distinct = trace signature + op kinds'),
    assumptions=[], real_components=COMMON_REAL, stub_components=COMMON_STUB,
    fault_kinds=['c03_oversize_fill', 'c03_fill_flip', 'c03_boundary_submissions'],
    probes=['c03_compares', 'c03_fill_open', 'c03_fill_increase', 'c03_fill_reduce', 'c03_fill_close', 'c03_fill_flip', 'rejections_seen'],
)
