"""C20 (a), preferred form: the REAL import loop (import_candles_mode.run) against a fake exchange driver with
message-loss / duplication / reordering faults and crash-restart faults, a virtual clock, and the real Candle
model bound to an in-memory SQLite database.  Oracles: at the _fill_absent_candles seam (per call) and
end-to-end (the table holds exactly one row per minute of the imported span, provided candles untouched)."""
import copy
import uuid

from simlab.prng import Stream

DAY = 86_400_000
T0 = 1_609_459_200_000   # 2021-01-01


class CrashFault(Exception):
    pass


def gen_case(seed):
    st = Stream(seed, 'c20imp')
    count = st.choice([7, 20, 60, 144, 360], 'count')        # driver batch size (minutes); 1440 % count need not be 0
    days = st.choice([1, 1, 2], 'days')
    now_offset_min = st.randint(3, 3 * count, 'now')          # minutes after midnight of "today"
    p_lost = st.choice([0.0, 0.05, 0.3, 0.6], 'plost')
    crashes = []
    nb = (days * 1440) // count + 2
    for j in range(st.choice([0, 0, 1, 2], 'ncrash')):
        crashes.append(st.randint(0, nb, 'crash', j))
    return {'seed': seed, 'count': count, 'days': days, 'now_offset_min': now_offset_min, 'p_lost': p_lost,
            'p_dup': st.choice([0.0, 0.2], 'pdup'), 'p_shuffle': st.choice([0.0, 0.3], 'pshuf'), 'crashes': sorted(crashes),
            'rerun': st.chance(0.5, 'rerun')}


def truth_candle(seed, ts):
    s = Stream(seed, 'truth')
    k = (ts - T0) // 60_000
    base = 100 + (k % 500) * 0.1
    o = round(base + s.u('o', k), 4)
    c = round(base + s.u('c', k), 4)
    return {'timestamp': ts, 'open': o, 'close': c, 'high': round(max(o, c) + s.u('h', k), 4), 'low': round(min(o, c) - s.u('l', k), 4),
            'volume': float(int(s.u('v', k) * 1000))}


def run_import(case):
    """returns (violations, counters)"""
    import arrow as real_arrow
    import peewee
    import jesse.helpers as jh
    import jesse.modes.import_candles_mode as icm
    from jesse.modes.import_candles_mode.drivers.interface import CandleExchange
    from jesse.models import Candle
    from jesse.store import store

    seed = case['seed']
    vs = []
    counters = {'import_runs': 0, 'fetch_calls': 0, 'fault_lost_minutes': 0, 'fault_duplicated': 0, 'fault_shuffled': 0,
                'fault_crash_mid_import': 0, 'fault_restart': 0, 'fill_calls': 0, 'skipped_existing_batches': 0}

    def v(clause, fp, detail):
        if len(vs) < 5:
            vs.append({'property': 'C20', 'clause': clause, 'fingerprint': fp, 'detail': detail, 'seq': counters['fetch_calls'], 'horizon': -1})

    start = T0 + DAY * Stream(seed, 'd').randint(0, 200, 'day')
    now_ms = start + case['days'] * DAY + case['now_offset_min'] * 60_000 + 17_000
    served = {}      # ts -> candle dict as first served (provided candles must reach the table untouched)
    state = {'batch_no': 0, 'crashes': list(case['crashes'])}

    class Fake(CandleExchange):
        def __init__(self):
            super().__init__(name='Fake Exchange', count=case['count'], rate_limit_per_second=1000, backup_exchange_class=None)

        def fetch(self, symbol, start_timestamp, timeframe='1m'):
            counters['fetch_calls'] += 1
            b = state['batch_no']
            state['batch_no'] += 1
            if state['crashes'] and b >= state['crashes'][0]:
                state['crashes'].pop(0)
                counters['fault_crash_mid_import'] += 1
                raise CrashFault(f'connection lost at batch {b}')
            st = Stream(seed, 'batch', start_timestamp)
            out = []
            forming_minute = (now_ms // 60_000) * 60_000     # a real exchange also returns the candle that is still forming
            for i in range(case['count']):
                ts = start_timestamp + i * 60_000
                if ts > forming_minute:
                    break
                if i > 0 and st.u('lost', i) < case['p_lost']:
                    counters['fault_lost_minutes'] += 1
                    continue            # (the first minute of a batch is kept: an exchange that omits it is treated as "no data")
                c = truth_candle(seed, ts)
                c.update({'id': str(uuid.UUID(int=(ts // 60_000))), 'exchange': 'Fake Exchange', 'symbol': symbol, 'timeframe': '1m'})
                out.append(c)
                served.setdefault(ts, copy.deepcopy(c))
            if out and st.u('dup') < case['p_dup']:
                j = st.randint(0, len(out) - 1, 'dj')
                d = copy.deepcopy(out[j])
                d['id'] = str(uuid.UUID(int=(d['timestamp'] // 60_000) + (1 << 70)))
                out.insert(st.randint(1, len(out), 'di'), d)     # (never in front: the loop reads candles[0] as "the first the exchange has")
                counters['fault_duplicated'] += 1
            if len(out) > 2 and st.u('shuf') < case['p_shuffle']:
                first = out[0]
                rest = st.shuffle(out[1:], 'sh')
                out = [first] + rest   # (the loop looks at candles[0] to decide whether the exchange has data at all)
                counters['fault_shuffled'] += 1
            return out

        def get_starting_time(self, symbol):
            return start

        def get_available_symbols(self):
            return ['BTC-USDT']

    # ---- seams of this mode: database, clock, sleep, driver table, the gap filler
    db = peewee.SqliteDatabase(':memory:')
    old_db = Candle._meta.database
    Candle._meta.set_database(db)
    db.connect()
    db.create_tables([Candle])

    class FakeArrow:
        def utcnow(self):
            return real_arrow.get(now_ms / 1000)

        def get(self, *a, **k):
            return real_arrow.get(*a, **k)

    class FakeTime:
        def sleep(self, s):
            pass

        def time(self):
            return now_ms / 1000

    saved = (icm.arrow, icm.time, icm._fill_absent_candles, store.app.time, icm.drivers.get('Fake Exchange'))
    icm.arrow = FakeArrow()
    icm.time = FakeTime()
    store.app.time = now_ms
    icm.drivers['Fake Exchange'] = Fake
    orig_fill = saved[2]

    def fill_seam(temp_candles, start_timestamp, end_timestamp):
        counters['fill_calls'] += 1
        snap = copy.deepcopy(temp_candles)
        out = orig_fill(temp_candles, start_timestamp, end_timestamp)
        n = (end_timestamp - start_timestamp) // 60_000 + 1
        ts = [c['timestamp'] for c in out]
        if ts != [start_timestamp + i * 60_000 for i in range(n)]:
            v('fill-grid', 'C20|import|fill-not-one-candle-per-minute', {'n': n, 'got': len(out)})
            return out
        first = {}
        for c in snap:
            first.setdefault(c['timestamp'], c)
        prev = None
        for c in out:
            if c['timestamp'] in first:
                w = first[c['timestamp']]
                if any(c[k] != w[k] for k in ('open', 'close', 'high', 'low', 'volume')):
                    v('fill-changed-provided', 'C20|import|provided-candle-changed', {'ts': c['timestamp']})
                    break
            else:
                ref = prev if prev is not None else snap[0]['open']
                if not (c['open'] == c['high'] == c['low'] == c['close'] == ref and c['volume'] == 0):
                    v('fill-value', f'C20|import|missing-minute-not-flat-at-previous-close|before-first={int(prev is None)}', {'ts': c['timestamp']})
                    break
            prev = c['close']
        return out

    icm._fill_absent_candles = fill_seam
    try:
        start_str = real_arrow.get(start / 1000).format('YYYY-MM-DD')
        attempts = 0
        done = False
        while not done and attempts < 6:
            attempts += 1
            counters['import_runs'] += 1
            try:
                icm.run('sim', 'Fake Exchange', 'BTC-USDT', start_str, running_via_dashboard=False)
                done = True
            except CrashFault:
                counters['fault_restart'] += 1      # the process died; only the database survives; start again
                continue
            except Exception as e:
                v('import-raised', f'C20|import|run-raised-{type(e).__name__}', {'exc': repr(e)[:300]})
                break
        if done and case['rerun']:
            state['crashes'] = []          # the second import runs without faults
            before = Candle.select().count()
            calls = counters['fetch_calls']
            try:
                icm.run('sim', 'Fake Exchange', 'BTC-USDT', start_str, running_via_dashboard=False)
            except Exception as e:
                v('import-raised', f'C20|import|second-run-raised-{type(e).__name__}', {'exc': repr(e)[:300]})
            if Candle.select().count() != before:
                v('rerun', 'C20|import|second-import-changed-the-table', {'before': before, 'after': Candle.select().count()})
            counters['skipped_existing_batches'] += 1
        if done and not vs:
            rows = list(Candle.select(Candle.timestamp, Candle.open, Candle.close, Candle.high, Candle.low, Candle.volume)
                        .where(Candle.exchange == 'Fake Exchange', Candle.symbol == 'BTC-USDT').order_by(Candle.timestamp.asc()).tuples())
            ts = [r[0] for r in rows]
            if not ts:
                v('table', 'C20|import|table-empty', {})
            else:
                want = list(range(start, ts[-1] + 60_000, 60_000))
                if ts != want:
                    missing = sorted(set(want) - set(ts))[:5]
                    dup = len(ts) - len(set(ts))
                    v('table', f'C20|import|table-not-one-row-per-minute|missing={int(bool(missing))}|dup={int(dup > 0)}|after-crash={int(counters["fault_crash_mid_import"] > 0)}',
                      {'rows': len(ts), 'want': len(want), 'missing_head': missing, 'first': ts[0], 'start': start})
                if ts[-1] > now_ms:
                    # (a flat filler for the minute that is still forming is the import loop's business and not
                    # covered by C20; a candle strictly in the future would be)
                    v('table', 'C20|import|candle-from-the-future', {'last': ts[-1], 'now': now_ms})
                for r in rows:
                    s = served.get(r[0])
                    if s is not None and (r[1], r[2], r[3], r[4], r[5]) != (s['open'], s['close'], s['high'], s['low'], s['volume']):
                        v('table', 'C20|import|stored-candle-differs-from-the-one-served', {'ts': r[0]})
                        break
                counters['rows_checked'] = len(rows)
    finally:
        icm.arrow, icm.time, icm._fill_absent_candles = saved[0], saved[1], saved[2]
        store.app.time = saved[3]
        if saved[4] is None:
            icm.drivers.pop('Fake Exchange', None)
        db.close()
        Candle._meta.set_database(old_db)
    return vs, counters
